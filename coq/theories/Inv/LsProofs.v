(* LsProofs.v - lemmas about the invocation lister. *)
From Robsd Require Export Inv.LsSpec.
From Robsd Require Import Base.Sort.
Local Open Scope N_scope.

(* ---- strcmp and the lexicographic order ---- *)
Lemma strcmp_refl a : strcmp a a = Eq.
Proof. induction a as [|x a IH]; simpl; [reflexivity|]. now rewrite N.compare_refl. Qed.

Lemma strcmp_eq a : forall b, strcmp a b = Eq -> a = b.
Proof.
  induction a as [|x a IH]; intros [|y b]; simpl; try discriminate; [reflexivity|].
  destruct (x ?= y) eqn:E; try discriminate.
  apply N.compare_eq in E. subst. intros H. f_equal. now apply IH.
Qed.

Lemma strcmp_antisym a : forall b, strcmp b a = CompOpp (strcmp a b).
Proof.
  induction a as [|x a IH]; intros [|y b]; simpl; try reflexivity.
  rewrite (N.compare_antisym x y). destruct (x ?= y); simpl; auto.
Qed.

Lemma strcmp_lt_blt a : forall b, strcmp a b = Lt <-> blt a b.
Proof.
  induction a as [|x a IH]; intros [|y b]; simpl.
  - split; [discriminate|inversion 1].
  - split; [constructor|reflexivity].
  - split; [discriminate|inversion 1].
  - destruct (x ?= y) eqn:E.
    + apply N.compare_eq in E. subst y. rewrite IH. split.
      * now constructor.
      * inversion 1; subst; [lia|assumption].
    + apply N.compare_lt_iff in E. split; [intros _; now constructor|reflexivity].
    + apply N.compare_gt_iff in E. split; [discriminate|].
      inversion 1; subst; lia.
Qed.

Lemma strcmp_gt_blt a b : strcmp a b = Gt <-> blt b a.
Proof.
  rewrite <- strcmp_lt_blt, (strcmp_antisym a b).
  destruct (strcmp a b); simpl; split; congruence.
Qed.

Lemma blt_irrefl a : ~ blt a a.
Proof. intros H. apply strcmp_lt_blt in H. rewrite strcmp_refl in H. discriminate. Qed.

Lemma blt_trans a : forall b c, blt a b -> blt b c -> blt a c.
Proof.
  induction a as [|x a IH]; intros b c Hab Hbc.
  - inversion Hab; subst. inversion Hbc; subst; constructor.
  - inversion Hab; subst; inversion Hbc; subst.
    + apply blt_head. lia.
    + now apply blt_head.
    + now apply blt_head.
    + apply blt_tail. eapply IH; eassumption.
Qed.

Lemma blt_total a b : blt a b \/ a = b \/ blt b a.
Proof.
  destruct (strcmp a b) eqn:E.
  - right; left. now apply strcmp_eq.
  - left. now apply strcmp_lt_blt.
  - right; right. now apply strcmp_gt_blt.
Qed.

Lemma bltb_spec a : forall b, bltb a b = true <-> blt a b.
Proof.
  induction a as [|x a IH]; intros [|y b]; simpl.
  - split; [discriminate|inversion 1].
  - split; [constructor|reflexivity].
  - split; [discriminate|inversion 1].
  - rewrite orb_true_iff, andb_true_iff, N.ltb_lt, N.eqb_eq, IH. split.
    + intros [H|[-> H]]; [now apply blt_head|now apply blt_tail].
    + inversion 1; subst; [now left|right; split; [reflexivity|assumption]].
Qed.

(* a common prefix does not matter: order of paths = order of names *)
Lemma strcmp_app r a b : strcmp (r ++ a) (r ++ b) = strcmp a b.
Proof. induction r as [|x r IH]; simpl; [reflexivity|]. now rewrite N.compare_refl. Qed.

Lemma strcmp_mkpath root a b : strcmp (mkpath root a) (mkpath root b) = strcmp a b.
Proof.
  unfold mkpath. rewrite strcmp_app. reflexivity.
Qed.

Lemma blt_mkpath root a b : blt (mkpath root a) (mkpath root b) <-> blt a b.
Proof. now rewrite <- !strcmp_lt_blt, strcmp_mkpath. Qed.

Lemma mkpath_inj root a b : mkpath root a = mkpath root b -> a = b.
Proof. unfold mkpath. intros H. apply app_inv_head in H. now injection H. Qed.

(* ---- the comparison handed to qsort ---- *)
Definition cmp_le (a b : bytes) : Prop := desc_cmp_le a b = true.

Lemma cmp_le_lt_or_eq a b : cmp_le a b -> blt a b \/ a = b.
Proof.
  unfold cmp_le, desc_cmp_le. destruct (strcmp a b) eqn:E; intros H; try discriminate.
  - right. now apply strcmp_eq.
  - left. now apply strcmp_lt_blt.
Qed.

Lemma lt_or_eq_cmp_le a b : blt a b \/ a = b -> cmp_le a b.
Proof.
  unfold cmp_le, desc_cmp_le. intros [H| ->].
  - apply strcmp_lt_blt in H. now rewrite H.
  - now rewrite strcmp_refl.
Qed.

Lemma cmp_le_trans a b c : cmp_le a b -> cmp_le b c -> cmp_le a c.
Proof.
  intros H1 H2. apply cmp_le_lt_or_eq in H1, H2. apply lt_or_eq_cmp_le.
  destruct H1 as [H1| ->]; destruct H2 as [H2| ->]; auto.
  left. eapply blt_trans; eassumption.
Qed.

Lemma cmp_le_total a b : cmp_le a b \/ cmp_le b a.
Proof.
  destruct (blt_total a b) as [H|[H|H]].
  - left. apply lt_or_eq_cmp_le. now left.
  - left. apply lt_or_eq_cmp_le. now right.
  - right. apply lt_or_eq_cmp_le. now left.
Qed.

(* what is assumed about qsort(3) with directory_desc_cmp: it returns the
   same elements, in an order in which adjacent elements compare <= 0 *)
Definition sorts (f : list bytes -> list bytes) : Prop :=
  forall l, Permutation l (f l) /\ Sorted cmp_le (f l).

(* the executable stand-in meets that contract: the contract is satisfiable *)
Lemma insert_perm x l : Permutation (x :: l) (insert x l).
Proof.
  induction l as [|y l IH]; simpl; [apply Permutation_refl|].
  destruct (desc_cmp_le x y); [apply Permutation_refl|].
  eapply Permutation_trans; [apply perm_swap|]. now apply perm_skip.
Qed.

Lemma insert_sorted x l : Sorted cmp_le l -> Sorted cmp_le (insert x l).
Proof.
  induction 1 as [|y l Hs IH Hhd]; simpl; [repeat constructor|].
  destruct (desc_cmp_le x y) eqn:E.
  - constructor; [now constructor|]. constructor. exact E.
  - constructor; [exact IH|].
    assert (Hyx : cmp_le y x) by (destruct (cmp_le_total x y) as [H|H]; [unfold cmp_le in H; congruence|exact H]).
    destruct l as [|z l]; simpl; [now constructor|].
    destruct (desc_cmp_le x z); constructor; [exact Hyx|].
    now inversion Hhd.
Qed.

Lemma isort_sorts : sorts isort.
Proof.
  intros l. induction l as [|x l [IHp IHs]]; simpl; [split; constructor|]. split.
  - eapply Permutation_trans; [apply perm_skip; exact IHp|apply insert_perm].
  - now apply insert_sorted.
Qed.

(* ---- the filter ---- *)
Lemma hidden_false_iff n : hidden n = false <-> forall t, n <> 46 :: t.
Proof.
  destruct n as [|c n]; simpl.
  - split; [intros _ t; discriminate|reflexivity].
  - destruct (N.eqb_spec c 46) as [->|Hc]; split; try reflexivity; try discriminate.
    + intros H. exfalso. now apply (H n).
    + intros _ t Ht. injection Ht as -> _. contradiction.
Qed.

Lemma dtype_is_dir_iff t : dtype_is_dir t = true <-> t = DT_DIR.
Proof. destruct t; simpl; split; congruence. Qed.

Lemma accepted_qualifies root keepdir de :
  accepted root keepdir de = true <-> qualifies root keepdir de.
Proof.
  unfold accepted, match_directory, qualifies.
  rewrite andb_true_iff, negb_true_iff, hidden_false_iff.
  destruct (dtype_is_dir (d_type de)) eqn:Ed.
  - apply dtype_is_dir_iff in Ed. rewrite negb_true_iff.
    destruct (beq_spec (mkpath root (d_name de)) keepdir) as [He|Hne]; split; intros H;
      try tauto; try (destruct H as [_ H]; discriminate); tauto.
  - split; [intros [_ H]; discriminate|].
    intros [H _]. apply dtype_is_dir_iff in H. congruence.
Qed.

Lemma qualifies_b_accepted root keepdir de :
  qualifies_b root keepdir de = accepted root keepdir de.
Proof.
  unfold qualifies_b, accepted, match_directory.
  destruct (dtype_is_dir (d_type de)), (hidden (d_name de)); reflexivity.
Qed.

Lemma invocation_read_in root keepdir ents p :
  In p (invocation_read root keepdir ents) <->
  exists de, In de ents /\ qualifies root keepdir de /\ p = mkpath root (d_name de).
Proof.
  unfold invocation_read. rewrite in_map_iff. split.
  - intros [de [<- Hin]]. apply filter_In in Hin as [Hin Ha].
    exists de. rewrite <- accepted_qualifies. auto.
  - intros [de [Hin [Hq ->]]]. exists de. split; [reflexivity|].
    apply filter_In. split; [exact Hin|now apply accepted_qualifies].
Qed.

Lemma NoDup_map_inj {A B} (f : A -> B) l :
  (forall a b, f a = f b -> a = b) -> NoDup l -> NoDup (map f l).
Proof.
  intros Hinj. induction 1 as [|x l Hx Hn IH]; simpl; constructor; [|exact IH].
  rewrite in_map_iff. intros [y [Hy Hin]]. apply Hinj in Hy. now subst.
Qed.

Lemma NoDup_map_filter {A B} (f : A -> B) (g : A -> bool) l :
  NoDup (map f l) -> NoDup (map f (filter g l)).
Proof.
  induction l as [|x l IH]; simpl; [auto|].
  inversion 1 as [|? ? Hx Hn]; subst.
  destruct (g x); simpl; [|now apply IH].
  constructor; [|now apply IH].
  rewrite in_map_iff in *. intros [y [Hy Hin]]. apply Hx. exists y. split; [exact Hy|].
  now apply filter_In in Hin as [Hin _].
Qed.

Lemma invocation_read_nodup root keepdir ents :
  distinct_names ents -> NoDup (invocation_read root keepdir ents).
Proof.
  unfold distinct_names, invocation_read. intros Hn.
  rewrite <- (map_map d_name (mkpath root)).
  apply NoDup_map_inj; [apply mkpath_inj|]. now apply NoDup_map_filter.
Qed.

(* ---- .running ---- *)
Lemma upto_nl_spec l b :
  upto_nl l = Some b <-> exists rest, l = b ++ 10 :: rest /\ nonl b.
Proof.
  revert b. induction l as [|c l IH]; intros b; simpl.
  - split; [discriminate|]. intros [rest [H _]]. destruct b; discriminate.
  - destruct (N.eqb_spec c 10) as [->|Hc].
    + split.
      * intros H. injection H as <-. exists l. split; [reflexivity|constructor].
      * intros [rest [H Hnl]]. destruct b as [|d b]; [reflexivity|].
        injection H as <- _. inversion Hnl; subst. contradiction.
    + destruct (upto_nl l) as [r|] eqn:E.
      * split.
        -- intros H. injection H as <-. destruct (proj1 (IH r) eq_refl) as [rest [-> Hnl]].
           exists rest. split; [reflexivity|]. now constructor.
        -- intros [rest [H Hnl]]. destruct b as [|d b]; [injection H as ->; contradiction|].
           injection H as <- ->. inversion Hnl; subst.
           f_equal. f_equal. assert (Hs : Some r = Some b) by (apply IH; eauto). now injection Hs.
      * split; [discriminate|].
        intros [rest [H Hnl]]. destruct b as [|d b]; [injection H as ->; contradiction|].
        injection H as <- ->. inversion Hnl; subst.
        assert (Hs : None = Some b) by (apply IH; eauto). discriminate.
Qed.

Lemma cstr_split l : cstr l = l \/ exists rest, l = cstr l ++ 0 :: rest.
Proof.
  induction l as [|c l IH]; simpl; [now left|].
  destruct (N.eqb_spec c 0) as [->|Hc]; [right; now exists l|].
  destruct IH as [->|[rest Hr]]; [now left|].
  right. exists rest. simpl. now rewrite <- Hr.
Qed.

Lemma nonul_app a b : nonul (a ++ b) <-> nonul a /\ nonul b.
Proof. unfold nonul. apply Forall_app. Qed.

Lemma cstr_app_nonul a b : nonul a -> cstr (a ++ b) = a ++ cstr b.
Proof.
  induction 1 as [|c a Hc _ IH]; simpl; [reflexivity|].
  destruct (N.eqb_spec c 0); [contradiction|]. now rewrite IH.
Qed.

Lemma running_builddir_spec lock b :
  running_builddir lock = Some b <-> lock_names lock b.
Proof.
  unfold running_builddir, lock_names. destruct lock as [content|].
  - rewrite upto_nl_spec. split.
    + intros [rest [Hc Hnl]].
      assert (Hnu : nonul b).
      { pose proof (cstr_nonul content) as Hn. rewrite Hc in Hn. now apply nonul_app in Hn. }
      destruct (cstr_split content) as [Heq|[tail Ht]].
      * exists content, rest. rewrite Heq in Hc. auto.
      * exists content, (rest ++ 0 :: tail). split; [reflexivity|]. split; [|auto].
        rewrite Ht at 1. rewrite Hc. now rewrite <- app_assoc.
    + intros [c [rest [Hc [-> [Hnl Hnu]]]]]. injection Hc as ->.
      rewrite cstr_app_nonul by exact Hnu. simpl. exists (cstr rest). auto.
  - split; [discriminate|]. intros [c [rest [H _]]]. discriminate.
Qed.

(* ---- the listing, for any qsort ---- *)
Section AnyQsort.
  Variable sortf : list bytes -> list bytes.
  Hypothesis sortf_sorts : sorts sortf.

  Lemma find_all_in root keepdir ents p :
    In p (invocation_find_all sortf root keepdir ents) <->
    In p (invocation_read root keepdir ents).
  Proof.
    unfold invocation_find_all. rewrite <- in_rev.
    destruct (sortf_sorts (invocation_read root keepdir ents)) as [Hp _]. split.
    - apply Permutation_in. now apply Permutation_sym.
    - now apply Permutation_in.
  Qed.

  Lemma find_all_desc root keepdir ents :
    distinct_names ents ->
    StronglySorted (fun a b => blt b a) (invocation_find_all sortf root keepdir ents).
  Proof.
    intros Hn. unfold invocation_find_all.
    destruct (sortf_sorts (invocation_read root keepdir ents)) as [Hp Hs].
    apply ssorted_rev.
    apply (sorted_le_nodup_ssorted_lt _ blt cmp_le cmp_le_lt_or_eq cmp_le_trans); [exact Hs|].
    eapply Permutation_NoDup; [exact Hp|]. now apply invocation_read_nodup.
  Qed.

  Lemma is_builddir_true bd p : is_builddir bd p = true <-> bd = Some p.
  Proof.
    destruct bd as [b|]; simpl; [|split; discriminate].
    rewrite beq_eq. split; [now intros ->|now intros [= ->]].
  Qed.

  Lemma ls_in_bd root keepdir bd ents p :
    In p (filter (fun p => negb (is_builddir bd p)) (invocation_find_all sortf root keepdir ents))
    <-> listed root keepdir bd ents p.
  Proof.
    rewrite filter_In, find_all_in, invocation_read_in, negb_true_iff. unfold listed. split.
    - intros [[de [Hin [Hq ->]]] Hb]. exists de.
      split; [exact Hin|]. split; [exact Hq|]. split; [reflexivity|].
      intros Hbd. apply is_builddir_true in Hbd. congruence.
    - intros [de [Hin [Hq [-> Hb]]]]. split; [eauto|].
      destruct (is_builddir bd (mkpath root (d_name de))) eqn:E; [|reflexivity].
      apply is_builddir_true in E. contradiction.
  Qed.

  Lemma ls_spec root keepdir (skipB : bool) lock ents :
    distinct_names ents ->
    listing_spec root keepdir (if skipB then running_builddir lock else None) ents
      (ls sortf root keepdir skipB lock ents).
  Proof.
    intros Hn. unfold ls, listing_spec. split.
    - intros p. apply ls_in_bd.
    - apply ssorted_filter. now apply find_all_desc.
  Qed.
End AnyQsort.

(* the specification has exactly one solution *)
Lemma listing_spec_unique root keepdir bd ents o1 o2 :
  listing_spec root keepdir bd ents o1 -> listing_spec root keepdir bd ents o2 -> o1 = o2.
Proof.
  intros [H1 S1] [H2 S2].
  apply (ssorted_perm_unique _ (fun a b => blt b a)); try assumption.
  - intros a. apply blt_irrefl.
  - intros a b c Hab Hbc. eapply blt_trans; eassumption.
  - apply NoDup_Permutation.
    + apply (ssorted_nodup _ (fun a b => blt b a)); [intros a; apply blt_irrefl|exact S1].
    + apply (ssorted_nodup _ (fun a b => blt b a)); [intros a; apply blt_irrefl|exact S2].
    + intros p. now rewrite H1, H2.
Qed.

Lemma ls_any_qsort sortf root keepdir (skipB : bool) lock ents :
  sorts sortf -> distinct_names ents ->
  ls sortf root keepdir skipB lock ents = ls_exec root keepdir skipB lock ents.
Proof.
  intros Hs Hn. eapply listing_spec_unique.
  - now apply ls_spec.
  - apply ls_spec; [apply isort_sorts|exact Hn].
Qed.

(* ---- the oracle reflects the specification ---- *)
Lemma desc_adjacent_spec l :
  desc_adjacent l = true <-> StronglySorted (fun a b => blt b a) l.
Proof.
  split.
  - intros H. apply Sorted_StronglySorted.
    + intros a b c Hab Hbc. eapply blt_trans; eassumption.
    + induction l as [|a l IH]; [constructor|].
      destruct l as [|b l]; [repeat constructor|].
      cbn [desc_adjacent] in H. apply andb_true_iff in H as [Hab Ht].
      constructor; [now apply IH|]. constructor. now apply bltb_spec.
  - intros H. apply StronglySorted_Sorted in H.
    induction H as [|a l Hs IH Hhd]; [reflexivity|].
    destruct l as [|b l]; [reflexivity|].
    cbn [desc_adjacent]. apply andb_true_iff. split; [|exact IH].
    inversion Hhd; subst. now apply bltb_spec.
Qed.

Lemma excluded_b_true bd p : excluded_b bd p = true <-> bd = Some p.
Proof.
  destruct bd as [b|]; simpl; [|split; discriminate].
  rewrite beq_eq. split; [now intros ->|now intros [= ->]].
Qed.

Lemma spec_ok_ls_iff root keepdir bd ents lines :
  spec_ok_ls root keepdir bd ents lines = true <-> listing_spec root keepdir bd ents lines.
Proof.
  unfold spec_ok_ls, listing_spec.
  rewrite !andb_true_iff, desc_adjacent_spec, !forallb_forall.
  split.
  - intros [[Hsound Hcompl] Hdesc]. split; [|exact Hdesc].
    intros p. split.
    + intros Hin. specialize (Hsound p Hin).
      apply andb_true_iff in Hsound as [Hex Hnb]. apply existsb_exists in Hex as [de [Hde Hq]].
      apply andb_true_iff in Hq as [Hq Hp]. apply beq_eq in Hp.
      exists de. rewrite qualifies_b_accepted, accepted_qualifies in Hq.
      split; [exact Hde|]. split; [exact Hq|]. split; [now symmetry|].
      intros Hbd. apply excluded_b_true in Hbd.
      rewrite Hbd in Hnb. discriminate.
    + intros [de [Hde [Hq [-> Hnb]]]]. specialize (Hcompl de Hde).
      apply accepted_qualifies in Hq. rewrite <- qualifies_b_accepted in Hq. rewrite Hq in Hcompl.
      simpl in Hcompl. apply orb_true_iff in Hcompl as [Hx|Hx].
      * apply excluded_b_true in Hx. contradiction.
      * apply existsb_exists in Hx as [q [Hq1 Hq2]]. apply beq_eq in Hq2. now subst.
  - intros [Hex Hdesc]. split; [split|exact Hdesc].
    + intros p Hin. apply Hex in Hin as [de [Hde [Hq [-> Hnb]]]].
      apply andb_true_iff. split.
      * apply existsb_exists. exists de. split; [exact Hde|].
        apply andb_true_iff. split; [|apply beq_refl].
        rewrite qualifies_b_accepted. now apply accepted_qualifies.
      * apply negb_true_iff. destruct (excluded_b bd (mkpath root (d_name de))) eqn:E; [|reflexivity].
        apply excluded_b_true in E. contradiction.
    + intros de Hde.
      destruct (qualifies_b root keepdir de) eqn:Eq; [|reflexivity]. simpl.
      destruct (excluded_b bd (mkpath root (d_name de))) eqn:Eb; [reflexivity|]. simpl.
      apply existsb_exists. exists (mkpath root (d_name de)). split; [|apply beq_refl].
      apply Hex. exists de. rewrite qualifies_b_accepted, accepted_qualifies in Eq.
      split; [exact Hde|]. split; [exact Eq|]. split; [reflexivity|].
      intros Hbd. apply excluded_b_true in Hbd. congruence.
Qed.

Lemma oracle_exact sortf root keepdir (skipB : bool) lock ents lines :
  sorts sortf -> distinct_names ents ->
  (spec_ok_ls root keepdir (if skipB then running_builddir lock else None) ents lines = true
   <-> lines = ls sortf root keepdir skipB lock ents).
Proof.
  intros Hs Hn. rewrite spec_ok_ls_iff. split.
  - intros H. eapply listing_spec_unique; [exact H|now apply ls_spec].
  - intros ->. now apply ls_spec.
Qed.

(* ---- statements in the shape of the property ---- *)
Lemma exact_set sortf root keepdir lock ents p :
  sorts sortf ->
  (In p (ls sortf root keepdir false lock ents) <->
   exists de, In de ents /\ d_type de = DT_DIR /\ hidden (d_name de) = false /\
              mkpath root (d_name de) <> keepdir /\ p = mkpath root (d_name de)).
Proof.
  intros Hs. unfold ls. rewrite (ls_in_bd sortf Hs). unfold listed, qualifies. split.
  - intros [de [Hin [[Hd [Hh Hk]] [-> _]]]]. exists de. rewrite hidden_false_iff. auto.
  - intros [de [Hin [Hd [Hh [Hk ->]]]]]. exists de. rewrite hidden_false_iff in Hh.
    repeat split; auto. discriminate.
Qed.

Lemma never_listed sortf root keepdir skipB lock ents de :
  sorts sortf -> distinct_names ents -> In de ents ->
  d_type de <> DT_DIR \/ hidden (d_name de) = true \/ mkpath root (d_name de) = keepdir ->
  ~ In (mkpath root (d_name de)) (ls sortf root keepdir skipB lock ents).
Proof.
  intros Hs Hn Hde Hbad Hin.
  apply (proj1 (ls_spec sortf Hs root keepdir skipB lock ents Hn)) in Hin.
  destruct Hin as [de' [Hde' [[Hd [Hh Hk]] [Hp _]]]].
  apply mkpath_inj in Hp.
  assert (de = de').
  { unfold distinct_names in Hn. clear -Hn Hde Hde' Hp.
    induction ents as [|e ents IH]; [contradiction|].
    simpl in Hn. inversion Hn as [|? ? Hx Hn']; subst.
    destruct Hde as [->|Hde], Hde' as [->|Hde']; auto.
    - exfalso. apply Hx. rewrite Hp. now apply in_map.
    - exfalso. apply Hx. rewrite <- Hp. now apply in_map. }
  subst de'. destruct Hbad as [Hb|[Hb|Hb]]; [contradiction| |contradiction].
  destruct (d_name de) as [|c n]; [discriminate|]. simpl in Hb.
  apply N.eqb_eq in Hb. subst c. now apply (Hh n).
Qed.

Lemma nodup_listing sortf root keepdir skipB lock ents :
  sorts sortf -> distinct_names ents -> NoDup (ls sortf root keepdir skipB lock ents).
Proof.
  intros Hs Hn. apply (ssorted_nodup _ (fun a b => blt b a)); [intros a; apply blt_irrefl|].
  exact (proj2 (ls_spec sortf Hs root keepdir skipB lock ents Hn)).
Qed.

(* descending in path order is descending in name order *)
Lemma all_mkpath root out :
  (forall p, In p out -> exists n, p = mkpath root n) ->
  exists names, out = map (mkpath root) names.
Proof.
  induction out as [|p out IH]; intros H; [now exists []|].
  destruct (H p (or_introl eq_refl)) as [n ->].
  destruct IH as [names ->]; [intros q Hq; apply H; now right|].
  now exists (n :: names).
Qed.

Lemma ssorted_map_mkpath root names :
  StronglySorted (fun a b => blt b a) (map (mkpath root) names) ->
  StronglySorted (fun a b => blt b a) names.
Proof.
  induction names as [|n names IH]; simpl; intros H; [constructor|].
  inversion H as [|? ? Hs Hall]; subst. constructor; [now apply IH|].
  rewrite Forall_forall in *. intros m Hm. apply blt_mkpath with (root := root).
  apply Hall. now apply in_map.
Qed.

Lemma descending_names sortf root keepdir skipB lock ents :
  sorts sortf -> distinct_names ents ->
  StronglySorted (fun a b => blt b a) (ls sortf root keepdir skipB lock ents) /\
  exists names, ls sortf root keepdir skipB lock ents = map (mkpath root) names /\
                StronglySorted (fun a b => blt b a) names.
Proof.
  intros Hs Hn.
  pose proof (ls_spec sortf Hs root keepdir skipB lock ents Hn) as [Hex Hd].
  split; [exact Hd|].
  destruct (all_mkpath root (ls sortf root keepdir skipB lock ents)) as [names Hnames].
  - intros p Hp. apply Hex in Hp as [de [_ [_ [-> _]]]]. now exists (d_name de).
  - exists names. split; [exact Hnames|]. apply ssorted_map_mkpath with (root := root).
    now rewrite <- Hnames.
Qed.

Lemma filter_all_true {A} (f : A -> bool) l :
  (forall x, In x l -> f x = true) -> filter f l = l.
Proof.
  induction l as [|x l IH]; simpl; intros H; [reflexivity|].
  rewrite (H x (or_introl eq_refl)). f_equal. apply IH. intros y Hy. apply H. now right.
Qed.

Lemma B_omits_exactly sortf root keepdir lock ents :
  sorts sortf -> distinct_names ents ->
  let all := ls sortf root keepdir false lock ents in
  let withB := ls sortf root keepdir true lock ents in
  (forall p, In p withB <-> In p all /\ running_builddir lock <> Some p) /\
  withB = filter (fun p => negb (is_builddir (running_builddir lock) p)) all /\
  (forall b, running_builddir lock = Some b -> In b all ->
             exists l1 l2, all = l1 ++ b :: l2 /\ withB = l1 ++ l2) /\
  ((forall b, running_builddir lock = Some b -> ~ In b all) -> withB = all).
Proof.
  intros Hs Hn all withB.
  assert (Hall : all = invocation_find_all sortf root keepdir ents).
  { unfold all, ls. apply filter_all_true. reflexivity. }
  assert (HB : withB = filter (fun p => negb (is_builddir (running_builddir lock) p)) all).
  { unfold withB, ls. now rewrite Hall. }
  assert (Hnd : NoDup all) by (apply nodup_listing; assumption).
  split; [|split; [exact HB|split]].
  - intros p. rewrite HB, filter_In, negb_true_iff. split; intros [H1 H2]; split; auto.
    + intros Hb. apply (is_builddir_true) in Hb. congruence.
    + destruct (is_builddir (running_builddir lock) p) eqn:E; [|reflexivity].
      apply is_builddir_true in E. contradiction.
  - intros b Hb Hin. rewrite HB, Hb. clear HB Hall.
    apply in_split in Hin as [l1 [l2 Hsplit]]. exists l1, l2. split; [exact Hsplit|].
    rewrite Hsplit in *. apply NoDup_remove_2 in Hnd.
    rewrite filter_app. simpl. rewrite beq_refl. simpl.
    assert (Hid : forall l, ~ In b l -> filter (fun p => negb (beq p b)) l = l).
    { induction l as [|x l IH]; simpl; [reflexivity|]. intros Hni.
      destruct (beq_spec x b) as [->|Hne]; simpl; [exfalso; apply Hni; now left|].
      f_equal. apply IH. intros H; apply Hni; now right. }
    rewrite !Hid; [reflexivity| |]; intros H; apply Hnd; apply in_or_app; auto.
  - intros Hno. rewrite HB. apply filter_all_true.
    intros p Hp. apply negb_true_iff.
    destruct (is_builddir (running_builddir lock) p) eqn:E; [|reflexivity].
    apply is_builddir_true in E. exfalso. eapply Hno; eauto.
Qed.

(* ---- the bytes on stdout ---- *)
Lemma ls_lines_nonl sortf root keepdir (skipB : bool) lock ents :
  sorts sortf -> distinct_names ents -> nonl root ->
  Forall (fun de => nonl (d_name de)) ents ->
  Forall nonl (ls sortf root keepdir skipB lock ents).
Proof.
  intros Hs Hn Hr He. apply Forall_forall. intros p Hp.
  apply (proj1 (ls_spec sortf Hs root keepdir skipB lock ents Hn)) in Hp.
  destruct Hp as [de [Hde [_ [-> _]]]].
  rewrite Forall_forall in He. unfold mkpath, nonl. apply Forall_app. split; [exact Hr|].
  constructor; [discriminate|]. now apply He.
Qed.

Lemma stdout_oracle_exact sortf root keepdir (skipB : bool) lock ents exit out :
  sorts sortf -> distinct_names ents -> nonl root ->
  Forall (fun de => nonl (d_name de)) ents ->
  (spec_ok_stdout root keepdir skipB lock (Some ents) exit out = true <->
   (exit, out) = ls_main sortf root keepdir skipB lock (Some ents)).
Proof.
  intros Hs Hn Hr He. unfold spec_ok_stdout, spec_ok_stdout_named, ls_main.
  rewrite !andb_true_iff, N.eqb_eq, beq_eq, (oracle_exact sortf) by assumption. split.
  - intros [[-> Hu] Hl]. rewrite <- Hl, Hu. reflexivity.
  - intros [= -> ->].
    rewrite getlines_unlines by (apply ls_lines_nonl; assumption). auto.
Qed.

(* ---- a lock file that names the directory by another spelling ---- *)
Lemma respelled_lock_not_omitted :
  exists root keepdir lock ents name,
    running_builddir lock = Some (root ++ 47 :: 47 :: name) /\
    In (mkde name DT_DIR) ents /\
    In (mkpath root name) (ls_exec root keepdir true lock ents) /\
    spec_ok_stdout_named root keepdir (Some (mkpath root name)) (Some ents)
      (fst (ls_main_exec root keepdir true lock (Some ents)))
      (snd (ls_main_exec root keepdir true lock (Some ents))) = false.
Proof.
  exists [47; 114], [47; 114; 47; 97; 116; 116; 105; 99],
         (Some [47; 114; 47; 47; 97; 10]), [mkde [97] DT_DIR; mkde [98] DT_DIR], [97].
  vm_compute. repeat split; auto.
Qed.
