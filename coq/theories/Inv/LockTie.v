(* LockTie.v - the statements of util.sh lock_acquire, as read by the
   translator (gen/Gen_Util.v, lock_acquire_src : list lstmt, one statement per
   line of the function body), mean the model.  [run_lock] (Inv/LockSrc.v)
   interprets the program on the lock file; [lock_acquire]
   (Inv/NameNewDefs.v) is the hand-written model the C17 theorems use
   (C17_concurrent_same_id_not_excluded, C17_sequential_runs_excluded) and the
   C16 discharge of [lock_consistent] goes through.  A change of the file that
   is read or written, of a test or of how the tests are joined, of the status
   or of the value written changes the generated program and this proof stops
   compiling. *)
From Robsd Require Import Inv.LockSrc Inv.NameNewDefs Inv.PurgeTotal.
From RobsdGen Require Import Gen_Util.
Local Open Scope N_scope.

Lemma lk_cmdsubst_eq c : lk_cmdsubst c = cmdsubst c.
Proof. reflexivity. Qed.

Lemma lock_acquire_is_source root lock bd :
  run_lock lock_acquire_src root lock bd = lock_acquire lock bd.
Proof.
  unfold run_lock, lock_acquire_src, lock_acquire.
  cbn [lsize ssize run_stmts Nat.add].
  change (beq [46; 114; 117; 110; 110; 105; 110; 103] name_running) with true. cbn iota.
  cbn [ls_file ls_owner ltest_eval lval].
  assert (Ho : lk_cmdsubst match lock with Some c => c | None => [] end =
               match lock with Some c => cmdsubst c | None => [] end) by (destruct lock; reflexivity).
  rewrite Ho. clear Ho.
  destruct (match lock with Some c => cmdsubst c | None => [] end) as [|x o] eqn:E.
  - cbn [andb]. cbn [run_stmts ls_owner ls_file lval]. reflexivity.
  - cbn [andb]. destruct (beq (x :: o) bd) eqn:Eb; cbn [negb run_stmts ls_owner ls_file lval].
    + reflexivity.
    + destruct lock; reflexivity.
Qed.

(* the lock file a successful lock_acquire leaves is the one C16's discharge of
   [lock_consistent] starts from *)
Lemma lock_written_is_acquire bd :
  snd (lock_acquire None bd) = lock_written bd.
Proof. reflexivity. Qed.
