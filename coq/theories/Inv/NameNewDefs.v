(* NameNewDefs.v - a new invocation end to end, on a tree WITH contents:
   BUILDDIR="${ROBSDDIR}/$(build_id "${ROBSDDIR}")"; build_init "${BUILDDIR}";
   lock_acquire "${ROBSDDIR}" "${BUILDDIR}"   (robsd, robsd-cross, robsd-ports,
   robsd-regress, canvas).  Definitions only.

   The tree is the one of the cleaning model (Inv/PurgeDefs.v: path below the
   root + node, a file node carries its content); [view] is what find(1) sees
   of it (Inv/NameDefs.v).  Also: the build directory under changes made by
   something other than log_id (entries added, entries deleted). *)
From Coq Require Import String.
From Robsd Require Export Inv.PurgeDefs.
Local Open Scope N_scope.

Definition kind_of_node (n : fnode) : ekind :=
  match n with FDir => KDir | FFile _ => KFile | FLink _ => KLink | FOther => KOther end.

Definition ent_of (e : fsent) : entry := mkent (f_path e) (kind_of_node (f_node e)).

Definition view (f : fstree) : list entry := map ent_of f.

(* [ -d P ] || mkdir P : fails when P exists and is not a directory *)
Definition fs_mkdir (p : list bytes) (f : fstree) : option fstree :=
  if is_dir_at p f then Some f
  else if has_path p f then None
  else Some (f ++ [mkfs p FDir]).

(* [ -e P ] || : >P *)
Definition fs_create (p : list bytes) (f : fstree) : fstree :=
  if has_path p f then f else f ++ [mkfs p (FFile [])].

(* build_init "${ROBSDDIR}/<id>" (set -e: a failing mkdir ends the script) *)
Definition fs_build_init (f : fstree) (id : bytes) : N * fstree :=
  match fs_mkdir [id] f with
  | None => (1, f)
  | Some f1 =>
      match fs_mkdir [id; name_tmp] f1 with
      | None => (1, f1)
      | Some f2 => (0, fs_create [id; name_step_csv] (fs_create [id; name_robsd_log] f2))
      end
  end.

Definition new_invocation (date start start_base : bytes) (f : fstree) : bytes * (N * fstree) :=
  let id := build_id_current date start start_base (view f) in
  (id, fs_build_init f id).

(* what a new invocation adds when nothing of that name is there *)
Definition fresh_entries (id : bytes) : fstree :=
  [mkfs [id] FDir; mkfs [id; name_tmp] FDir;
   mkfs [id; name_robsd_log] (FFile []); mkfs [id; name_step_csv] (FFile [])].

(* the build directory of invocation [id] as log_id sees it: entries below id,
   paths relative to it *)
Definition builddir_view (f : fstree) (id : bytes) : list entry :=
  flat_map (fun e => match f_path e with
                     | a :: b :: r => if beq a id then [mkent (b :: r) (kind_of_node (f_node e))] else []
                     | _ => []
                     end) f.

(* runs and cleaning on the tree *)
Inductive fs_op :=
| FRun (date : bytes)
| FRemove (victims : list bytes).

Definition fs_step (start start_base : bytes) (f : fstree) (o : fs_op) : fstree :=
  match o with
  | FRun d => snd (snd (new_invocation d start start_base f))
  | FRemove vs => fold_left remove_tree vs f
  end.

(* ---- lock_acquire: $(cat .running) drops trailing newlines ---- *)
Fixpoint drop_nl (l : bytes) : bytes :=
  match l with
  | c :: l' => if c =? 10 then drop_nl l' else l
  | [] => []
  end.

Definition cmdsubst (c : bytes) : bytes := rev (drop_nl (rev c)).

Definition lock_acquire (lock : option bytes) (builddir : bytes) : N * option bytes :=
  let owner := match lock with Some c => cmdsubst c | None => [] end in
  match owner with
  | _ :: _ => if beq owner builddir then (0, Some (builddir ++ [10])) else (1, lock)
  | [] => (0, Some (builddir ++ [10]))
  end.

(* ---- the build directory while a step is re-run: attempts of log_id
   interleaved with entries appearing and disappearing ---- *)
Inductive lop :=
| LAttempt (sn : nat * bytes)
| LAdd (e : entry)                  (* created unless something is at that path already *)
| LDel (p : list bytes).            (* rm -r: the entry at p and everything below *)

Definition ldel (p : list bytes) (tree : list entry) : list entry :=
  filter (fun e => negb (under p (e_path e))) tree.

Definition lstep (start start_base : bytes) (tree : list entry) (o : lop) : list entry :=
  match o with
  | LAttempt sn => snd (attempt start start_base tree sn)
  | LAdd e => if existsb (fun x => path_beq (e_path x) (e_path e)) tree then tree else tree ++ [e]
  | LDel p => ldel p tree
  end.
