(* PreviousByName.v - "the previous invocation" in the report (C18) is the
   greatest OTHER name under strcmp, not the invocation made before this one.

   [previous_by_name] (Report/DurationSpec.v) is the fold the model of report.c
   previous_builddir computes (Report/DurationProofs.previous_is_by_name);
   [spec_previous] is the specification by AGE, given the order of creation.  Witness: the ninth, tenth
   and eleventh invocation of a day exist, the report is made for the eleventh
   - "previous" is the ninth, the tenth is skipped, because DATE.10 sorts below
   DATE.9.  Replayed on the real robsd-report: findings/D23_build_id_monotone.md
   (c) (Size: bsd 4.8M (+3.8M) although DATE.10 has the same size).  The same
   order decides robsd-clean's victims (Inv/PurgeFaithful.v,
   newest_is_name_order_witness) and duration_prev / cvs_log's previous date
   through prev_release -B. *)
From Coq Require Import String.
From Robsd Require Import Inv.NameDefs Inv.NameMax Report.DurationSpec Report.DurationProofs.
Local Open Scope N_scope.
Local Open Scope string_scope.

Definition pbn_cfg : cfgview :=
  mkcfg (bs "/r/2024-03-05.11") true (bs "/r") (bs "/r/attic") [] [] [] [].

Definition pbn_files : files :=
  mkfiles (fun _ => FAbsent) (fun _ => FAbsent) FAbsent None None
    (Some [mkde (bs "2024-03-05.9") DT_DIR; mkde (bs "2024-03-05.10") DT_DIR; mkde (bs "2024-03-05.11") DT_DIR;
           mkde (bs "attic") DT_DIR])
    None (fun _ _ => None).

(* the names are the ones build_id hands out: ninth, tenth, eleventh of the day *)
Lemma pbn_names :
  with_suffixN (bs "2024-03-05") 9 = bs "2024-03-05.9" /\
  with_suffixN (bs "2024-03-05") 10 = bs "2024-03-05.10" /\
  with_suffixN (bs "2024-03-05") 11 = bs "2024-03-05.11".
Proof. vm_compute. repeat split; reflexivity. Qed.

Lemma previous_is_not_previous :
  previous_by_name pbn_cfg pbn_files = Some (bs "/r/2024-03-05.9") /\
  previous_builddir pbn_cfg pbn_files = Some (bs "/r/2024-03-05.9") /\
  spec_previous pbn_cfg pbn_files [bs "/r/2024-03-05.9"; bs "/r/2024-03-05.10"; bs "/r/2024-03-05.11"] =
    Some (bs "/r/2024-03-05.10").
Proof.
  assert (H : previous_by_name pbn_cfg pbn_files = Some (bs "/r/2024-03-05.9")) by (vm_compute; reflexivity).
  split; [exact H|]. split; [rewrite previous_is_by_name; exact H|]. vm_compute. reflexivity.
Qed.
