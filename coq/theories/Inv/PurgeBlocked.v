(* PurgeBlocked.v - the cleaning model with the failures of mkdir and cp
   (PurgeDefs.robsd_clean_x, the function the driver runs against the real
   robsd-clean) related to the model in which every victim reaches the attic
   (PurgeDefs.robsd_clean, the function the lemmas of PurgeProofs/PurgeComplete
   are about):
   - when every victim is archived the two coincide (clean_x_completes);
   - that is the case whenever nothing but directories sits at attic,
     attic/YYYY, attic/YYYY/MM and attic/YYYY/MM/DD.X of the victims
     (attic_clear_completes, for date-shaped names);
   - in every case - blocked or not - nothing outside the attic and outside the
     victims is removed or changed, nothing new appears outside the attic, what
     is new in the attic of a blocked run is directories (clean_x_always);
   - attic_blocked_witness: a plain file attic/2024 - the first victim stays in
     the root without its logs, the second is not touched, exit status 0. *)
From Coq Require Import String.
From Robsd Require Import Inv.PurgeSpec Inv.PurgeProofs Inv.LsProofs Inv.PurgeComplete Inv.PurgeOracle Inv.NameProofs.
Local Open Scope N_scope.

(* ---- mkdirs ---- *)
Lemma mkdirs_ok ps : forall f f', mkdirs ps f = (true, f') -> f' = mkdir_all ps f.
Proof.
  induction ps as [|p ps IH]; intros f f' H; simpl in H.
  - now injection H as <-.
  - destruct (nondir_at p f); [discriminate|]. simpl. now apply IH.
Qed.

Lemma mkdirs_in ps : forall f ok f' e,
  mkdirs ps f = (ok, f') -> In e f' -> In e f \/ (f_node e = FDir /\ In (f_path e) ps).
Proof.
  induction ps as [|p ps IH]; intros f ok f' e H He; simpl in H.
  - injection H as _ <-. now left.
  - destruct (nondir_at p f).
    + injection H as _ <-. now left.
    + destruct (IH _ _ _ _ H He) as [Hm|[Hn Hp]]; [|right; split; [exact Hn|now right]].
      apply mkdir_one_in in Hm as [Hm|[_ ->]]; [now left|]. right. split; [reflexivity|now left].
Qed.

Lemma mkdir_one_keeps f p e : In e f -> In e (mkdir_one f p).
Proof. unfold mkdir_one. destruct (has_path p f); [auto|]. intros H. apply in_or_app. now left. Qed.

Lemma mkdirs_keeps ps : forall f ok f' e, mkdirs ps f = (ok, f') -> In e f -> In e f'.
Proof.
  induction ps as [|p ps IH]; intros f ok f' e H He; simpl in H.
  - now injection H as _ <-.
  - destruct (nondir_at p f).
    + now injection H as _ <-.
    + eapply IH; [exact H|]. now apply mkdir_one_keeps.
Qed.

(* ---- one victim ---- *)
Lemma purge_one_x_ok f v f' : purge_one_x f v = (true, f') -> f' = purge_one f v.
Proof.
  unfold purge_one_x. destruct (nondir_at [name_attic] f); [discriminate|].
  destruct (mkdirs _ _) as [[|] f2]; [|discriminate].
  destruct (nondir_at (attic_dst v) f2); [discriminate|]. now intros [= <-].
Qed.

Lemma strip_in f v e : In e (strip_victim f v) -> In e f.
Proof. unfold strip_victim. intros H. apply filter_In in H as [H _]. now apply filter_In in H as [H _]. Qed.

Lemma strip_keeps f v e :
  In e f -> under [v] (f_path e) = false \/ f_path e = [v] -> In e (strip_victim f v).
Proof.
  intros He Hp. unfold strip_victim. apply filter_In. split.
  - apply filter_In. split; [exact He|]. destruct (under [v; name_tmp] (f_path e)) eqn:E; [|reflexivity].
    destruct Hp as [Hp|Hp].
    + apply under_tmp_under_v in E. congruence.
    + rewrite Hp in E. simpl in E. rewrite beq_refl in E. discriminate.
  - destruct Hp as [-> | ->]; [reflexivity|]. rewrite path_beq_refl. now rewrite orb_true_r.
Qed.

Lemma proper_prefixes_under v p : In p (proper_prefixes (attic_dst v)) -> under [name_attic] p = true.
Proof. intros H. apply (attic_parents_under v). now right. Qed.

Lemma purge_one_x_blocked_in f v f' e :
  purge_one_x f v = (false, f') -> In e f' ->
  In e f \/ (f_node e = FDir /\ under [name_attic] (f_path e) = true).
Proof.
  unfold purge_one_x. destruct (nondir_at [name_attic] f); [intros [= <-]; now left|].
  destruct (mkdirs _ _) as [ok f2] eqn:Em. intros H He.
  assert (Hf2 : In e f2) by (destruct ok; [destruct (nondir_at (attic_dst v) f2); [|discriminate]|]; now injection H as <-).
  destruct (mkdirs_in _ _ _ _ _ Em Hf2) as [Hs|[Hn Hp]].
  - apply strip_in in Hs. apply mkdir_one_in in Hs as [Hs|[_ ->]]; [now left|].
    right. split; [reflexivity|apply under_refl].
  - right. split; [exact Hn|]. now apply (proper_prefixes_under v).
Qed.

Lemma purge_one_x_blocked_keeps f v f' e :
  purge_one_x f v = (false, f') -> In e f ->
  under [v] (f_path e) = false \/ f_path e = [v] -> In e f'.
Proof.
  unfold purge_one_x. destruct (nondir_at [name_attic] f); [intros [= <-]; auto|].
  destruct (mkdirs _ _) as [ok f2] eqn:Em. intros H He Hp.
  assert (Hf2 : In e f2).
  { eapply mkdirs_keeps; [exact Em|]. apply strip_keeps; [|exact Hp]. now apply mkdir_one_keeps. }
  destruct ok; [destruct (nondir_at (attic_dst v) f2); [|discriminate]|]; now injection H as <-.
Qed.

(* ---- all victims: either every one is archived and the tree is the one of
   the optimistic model, or the loop ends at the first blocked victim ---- *)
Lemma purge_all_x_cases vs : forall f,
  purge_all_x vs f = (vs, fold_left purge_one vs f) \/
  exists vs1 v vs2 f', vs = vs1 ++ v :: vs2 /\
    purge_one_x (fold_left purge_one vs1 f) v = (false, f') /\ purge_all_x vs f = (vs1, f').
Proof.
  induction vs as [|v vs IH]; intros f; [now left|]. simpl.
  destruct (purge_one_x f v) as [[|] f1] eqn:E.
  - apply purge_one_x_ok in E as E1. subst f1.
    destruct (IH (purge_one f v)) as [->|[vs1 [w [vs2 [f' [-> [Hb ->]]]]]]]; [now left|].
    right. exists (v :: vs1), w, vs2, f'. repeat split; auto.
  - right. exists [], v, vs, f1. repeat split; auto.
Qed.

Lemma purge_all_x_new vs f e :
  In e (snd (purge_all_x vs f)) ->
  In e f \/ under [name_attic] (f_path e) = true.
Proof.
  destruct (purge_all_x_cases vs f) as [->|[vs1 [v [vs2 [f' [_ [Hb ->]]]]]]]; simpl; intros He.
  - now apply fold_purge_new in He.
  - apply (purge_one_x_blocked_in _ _ _ _ Hb) in He as [He|[_ Ha]]; [|now right].
    now apply fold_purge_new in He.
Qed.

Lemma purge_all_x_outside vs f e :
  In e f -> under [name_attic] (f_path e) = false -> (forall v, In v vs -> under [v] (f_path e) = false) ->
  In e (snd (purge_all_x vs f)).
Proof.
  intros He Ha Hv.
  destruct (purge_all_x_cases vs f) as [->|[vs1 [v [vs2 [f' [-> [Hb ->]]]]]]]; simpl.
  - now apply fold_purge_outside.
  - eapply purge_one_x_blocked_keeps; [exact Hb| |left; apply Hv; apply in_or_app; right; now left].
    apply fold_purge_outside; auto. intros w Hw. apply Hv. apply in_or_app. now left.
Qed.

(* what is there afterwards but was not there before, in a run that stopped:
   archived copies of the completed victims, and directories *)
Lemma purge_all_x_stopped vs f done f' :
  purge_all_x vs f = (done, f') -> done <> vs ->
  exists vs2 v, vs = done ++ v :: vs2 /\
    (forall e, In e f' -> In e (fold_left purge_one done f) \/
                          (f_node e = FDir /\ under [name_attic] (f_path e) = true)) /\
    (forall e, In e (fold_left purge_one done f) ->
               under [v] (f_path e) = false \/ f_path e = [v] -> In e f').
Proof.
  intros H Hne. destruct (purge_all_x_cases vs f) as [E|[vs1 [v [vs2 [g [-> [Hb E]]]]]]];
    rewrite E in H; injection H as <- <-; [congruence|].
  exists vs2, v. split; [reflexivity|]. split.
  - intros e. apply (purge_one_x_blocked_in _ _ _ _ Hb).
  - intros e. apply (purge_one_x_blocked_keeps _ _ _ _ Hb).
Qed.

(* ---- the whole command ---- *)
Definition victim_list (sortf : list bytes -> list bytes) (rootstr : bytes)
    (keep_conf : nat) (count : option nat) (lock : option bytes) (f : fstree) : list bytes :=
  map basename_str (victims sortf rootstr lock (effective_keep keep_conf count) f).

(* every victim reaches the attic *)
Definition completes (sortf : list bytes -> list bytes) (rootstr : bytes)
    (keep_conf : nat) (count : option nat) (lock : option bytes) (f : fstree) : Prop :=
  effective_keep keep_conf count <> 0%nat ->
  fst (purge_all_x (victim_list sortf rootstr keep_conf count lock f) f) =
  victim_list sortf rootstr keep_conf count lock f.

Lemma clean_x_completes sortf rootstr keep_conf count ka lock f :
  (ka = true -> completes sortf rootstr keep_conf count lock f) ->
  robsd_clean_x sortf rootstr keep_conf count ka lock f = robsd_clean sortf rootstr keep_conf count ka lock f.
Proof.
  unfold completes, victim_list, robsd_clean_x, robsd_clean. intros Hc.
  destruct (effective_keep keep_conf count) as [|k]; [reflexivity|].
  destruct ka; [|reflexivity]. specialize (Hc eq_refl (Nat.neq_succ_0 k)).
  set (vs := victims sortf rootstr lock (S k) f) in *.
  destruct (purge_all_x_cases (map basename_str vs) f) as [E|[vs1 [v [vs2 [f' [Hs [_ E]]]]]]]; rewrite E in *; simpl in Hc.
  - rewrite map_length, firstn_all. reflexivity.
  - exfalso. rewrite Hs in Hc. apply (f_equal (@length bytes)) in Hc. rewrite app_length in Hc. simpl in Hc. lia.
Qed.

Lemma clean_x_exit sortf rootstr keep_conf count ka lock f :
  fst (fst (robsd_clean_x sortf rootstr keep_conf count ka lock f)) = 0.
Proof.
  unfold robsd_clean_x. destruct (effective_keep keep_conf count); [reflexivity|].
  destruct ka; [|reflexivity]. now destruct (purge_all_x _ f).
Qed.

Lemma clean_x_tree sortf rootstr keep_conf count ka lock f :
  effective_keep keep_conf count <> 0%nat ->
  snd (robsd_clean_x sortf rootstr keep_conf count ka lock f) =
  if ka then snd (purge_all_x (victim_list sortf rootstr keep_conf count lock f) f)
  else fold_left remove_tree (victim_list sortf rootstr keep_conf count lock f) f.
Proof.
  unfold robsd_clean_x, victim_list. destruct (effective_keep keep_conf count) as [|k]; [contradiction|]. intros _.
  destruct ka; [|reflexivity]. now destruct (purge_all_x _ f).
Qed.

(* in every case: nothing new outside the attic, nothing outside the attic and
   outside the victims is lost or changed *)
Lemma clean_x_always sortf rootstr keep_conf count ka lock f :
  let after := snd (robsd_clean_x sortf rootstr keep_conf count ka lock f) in
  let vs := victim_list sortf rootstr keep_conf count lock f in
  fst (fst (robsd_clean_x sortf rootstr keep_conf count ka lock f)) = 0 /\
  (forall e, In e after -> In e f \/ (ka = true /\ under [name_attic] (f_path e) = true)) /\
  (forall e, In e f -> under [name_attic] (f_path e) = false ->
             (forall v, In v vs -> under [v] (f_path e) = false) -> In e after).
Proof.
  cbv zeta. split; [apply clean_x_exit|].
  destruct (Nat.eq_dec (effective_keep keep_conf count) 0) as [E|E].
  - unfold robsd_clean_x. rewrite E. simpl. split; [now left|auto].
  - rewrite clean_x_tree by exact E. destruct ka.
    + split.
      * intros e He. apply purge_all_x_new in He as [He|He]; auto.
      * intros e. apply purge_all_x_outside.
    + split.
      * intros e He. apply fold_remove_in in He as [He _]. now left.
      * intros e He _ Hv. apply fold_remove_in. auto.
Qed.

(* ---- a static condition under which every victim is archived ---- *)
Lemma is_dir_at_iff p f : is_dir_at p f = true <-> In (mkfs p FDir) f.
Proof.
  unfold is_dir_at. rewrite existsb_exists. split.
  - intros [e [He Hb]]. apply andb_true_iff in Hb as [Hp Hn]. apply path_beq_eq in Hp.
    destruct e as [q n]. simpl in *. subst q. destruct n; try discriminate. exact He.
  - intros H. exists (mkfs p FDir). split; [exact H|]. simpl. now rewrite path_beq_refl.
Qed.

(* nondir_at depends only on the entries at that path *)
Lemma nondir_at_ext p f g :
  (forall e, f_path e = p -> (In e f <-> In e g)) -> nondir_at p f = nondir_at p g.
Proof.
  intros H. unfold nondir_at. f_equal.
  - apply eq_true_iff_eq. rewrite !has_path_in. split; intros [e [He Hp]]; exists e; (split; [|exact Hp]); now apply (H e Hp).
  - f_equal. apply eq_true_iff_eq. rewrite !is_dir_at_iff. now apply H.
Qed.

Lemma has_path_app' p f g : has_path p (f ++ g) = has_path p f || has_path p g.
Proof. unfold has_path. apply existsb_app. Qed.

Lemma is_dir_at_app' p f g : is_dir_at p (f ++ g) = is_dir_at p f || is_dir_at p g.
Proof. unfold is_dir_at. apply existsb_app. Qed.

Lemma nondir_at_mkdir_one p q f : nondir_at p f = false -> nondir_at p (mkdir_one f q) = false.
Proof.
  intros H. unfold mkdir_one. destruct (has_path q f) eqn:Eq; [exact H|].
  unfold nondir_at in *. rewrite has_path_app', is_dir_at_app'. simpl.
  destruct (path_beq q p) eqn:Epq; simpl.
  - now rewrite !orb_true_r.
  - now rewrite !orb_false_r.
Qed.

Lemma mkdirs_succeeds ps : forall f,
  (forall p, In p ps -> nondir_at p f = false) -> mkdirs ps f = (true, mkdir_all ps f).
Proof.
  induction ps as [|p ps IH]; intros f H; simpl; [reflexivity|].
  rewrite (H p) by now left. apply IH. intros q Hq. apply nondir_at_mkdir_one. apply H. now right.
Qed.

Lemma nondir_at_mkdir_all ps : forall p f, nondir_at p f = false -> nondir_at p (mkdir_all ps f) = false.
Proof.
  induction ps as [|q ps IH]; intros p f H; simpl; [exact H|]. apply IH. now apply nondir_at_mkdir_one.
Qed.

Lemma nondir_at_strip p f v : under [v] p = false -> nondir_at p (strip_victim f v) = nondir_at p f.
Proof.
  intros Hv. apply nondir_at_ext. intros e Hp. split; [apply strip_in|].
  intros He. apply strip_keeps; [exact He|]. left. now rewrite Hp.
Qed.

(* the paths purge needs to be directories (or absent) for victim v *)
Definition attic_path_of (v : bytes) (p : list bytes) : Prop :=
  In p (attic_parents (attic_dst v)) \/ p = attic_dst v.

Definition attic_clear (f : fstree) (vs : list bytes) : Prop :=
  forall v p, In v vs -> attic_path_of v p -> nondir_at p f = false.

Lemma attic_path_under v p : attic_path_of v p -> under [name_attic] p = true.
Proof. intros [H| ->]; [now apply (attic_parents_under v)|apply attic_dst_is_under]. Qed.

Lemma attic_path_length v p : date_shaped v -> attic_path_of v p -> (length p <= 4)%nat.
Proof.
  intros Hd H. destruct (date_shaped_dst v Hd) as [y [m [d [_ E]]]]. destruct H as [H| ->]; [|now rewrite E].
  destruct H as [<-|H]; [simpl; lia|]. unfold proper_prefixes in H. apply in_map_iff in H as [k [<- Hk]].
  rewrite firstn_length, E. simpl. lia.
Qed.

Lemma purge_one_x_succeeds f v :
  v <> name_attic -> attic_clear f [v] -> purge_one_x f v = (true, purge_one f v).
Proof.
  intros Hva Hc. unfold purge_one_x.
  assert (Ha : nondir_at [name_attic] f = false) by (apply (Hc v); [now left|left; now left]).
  rewrite Ha.
  assert (Hnu : forall p, attic_path_of v p -> under [v] p = false).
  { intros p Hp. apply (under_disjoint name_attic); [congruence|now apply (attic_path_under v)]. }
  assert (Hfa : forall p, attic_path_of v p -> nondir_at p (strip_victim (mkdir_one f [name_attic]) v) = false).
  { intros p Hp. rewrite nondir_at_strip by now apply Hnu. apply nondir_at_mkdir_one. apply (Hc v); [now left|exact Hp]. }
  rewrite mkdirs_succeeds by (intros p Hp; apply Hfa; left; now right).
  rewrite nondir_at_mkdir_all by (apply Hfa; now right). reflexivity.
Qed.

(* a victim that reaches the attic leaves no new non-directory at the paths the
   other victims need *)
Lemma purge_one_keeps_clear f v w p :
  wf_tree f -> In (mkfs [v] FDir) f -> date_shaped v -> date_shaped w ->
  attic_path_of w p -> nondir_at p f = false -> nondir_at p (purge_one f v) = false.
Proof.
  intros Hwf Hv Hdv Hdw Hp Hn.
  destruct (nondir_at p (purge_one f v)) eqn:E; [|reflexivity]. exfalso.
  unfold nondir_at in E. apply andb_true_iff in E as [Hh Hd]. apply negb_true_iff in Hd.
  apply has_path_in in Hh as [e [He Hpe]].
  assert (Hnd : f_node e <> FDir).
  { intros Hf. assert (In (mkfs p FDir) (purge_one f v)) by (destruct e; simpl in *; now subst).
    apply is_dir_at_iff in H. congruence. }
  assert (Hua : under [name_attic] (f_path e) = true) by (rewrite Hpe; now apply (attic_path_under w)).
  apply purge_one_attic_at in He as [He|[[Hc _]|[e0 [H0 [Hu0 [_ [-> Hk]]]]]]]; [| | |exact Hua].
  - unfold nondir_at in Hn. assert (Hh : has_path p f = true) by (apply has_path_in; eauto).
    rewrite Hh in Hn. simpl in Hn. apply negb_false_iff in Hn. apply is_dir_at_iff in Hn.
    pose proof (nodup_paths_eq f e (mkfs p FDir) (proj1 Hwf) He Hn Hpe) as ->. now apply Hnd.
  - contradiction.
  - cbn [copy_to f_path f_node] in *.
    destruct (date_shaped_dst v Hdv) as [y [m [d [_ Ev]]]].
    pose proof (attic_path_length w p Hdw Hp) as Hl. rewrite <- Hpe, app_length in Hl.
    assert (Hb : (4 <= length (purge_base f v))%nat).
    { destruct (purge_base_cases f v) as [-> | ->]; rewrite ?app_length, Ev; simpl; lia. }
    assert (Hr : skipn 1 (f_path e0) = []) by (destruct (skipn 1 (f_path e0)); [reflexivity|simpl in Hl; lia]).
    apply under_spec in Hu0 as [r Hr0]. rewrite Hr0 in Hr. simpl in Hr. subst r. simpl in Hr0.
    pose proof (nodup_paths_eq f e0 (mkfs [v] FDir) (proj1 Hwf) H0 Hv Hr0) as ->. now apply Hnd.
Qed.

Lemma attic_clear_completes vs : forall f,
  wf_tree f -> NoDup vs -> (forall v, In v vs -> date_shaped v /\ In (mkfs [v] FDir) f) ->
  attic_clear f vs -> purge_all_x vs f = (vs, fold_left purge_one vs f).
Proof.
  induction vs as [|v vs IH]; intros f Hwf Hnd Hvs Hc; [reflexivity|].
  inversion Hnd as [|? ? Hnv Hnd']; subst. simpl.
  destruct (Hvs v (or_introl eq_refl)) as [Hdv Hv].
  rewrite purge_one_x_succeeds; [| now apply date_shaped_not_attic |].
  2:{ intros u p Hu Hp. destruct Hu as [<-|[]]. apply (Hc v); [now left|exact Hp]. }
  rewrite IH; [reflexivity| | | |].
  - apply wf_purge_one; [exact Hwf|now apply date_shaped_no_slash].
  - exact Hnd'.
  - intros w Hw. destruct (Hvs w (or_intror Hw)) as [Hdw Hwf']. split; [exact Hdw|].
    apply purge_one_outside; [| |exact Hwf']; cbn [f_path]; rewrite under_one_cons.
    + destruct (beq_spec v w) as [->|_]; [contradiction|reflexivity].
    + destruct (beq_spec name_attic w) as [<-|_]; [|reflexivity]. exfalso. now apply (date_shaped_not_attic name_attic).
  - intros w p Hw Hp. apply (purge_one_keeps_clear f v w p); auto.
    + apply (Hvs w). now right.
    + apply (Hc w); [now right|exact Hp].
Qed.
