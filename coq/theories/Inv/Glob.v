(* Glob.v - the fragment of shell patterns the scripts hand to find -name:
   literal text and '*'.  Definitions and their lemmas; used by the tables
   the translator harness/t_util.py regenerates from util.sh. *)
From Robsd Require Export Base.Bytes.
Local Open Scope N_scope.

Inductive gtok := GStar | GLit (s : bytes).

Definition glob := list gtok.

(* all suffixes of a string, longest first *)
Fixpoint suffixes (s : bytes) : list bytes :=
  s :: match s with [] => [] | _ :: s' => suffixes s' end.

(* fnmatch(pattern, s, 0) for patterns of literals and stars *)
Fixpoint glob_match (p : glob) (s : bytes) : bool :=
  match p with
  | [] => match s with [] => true | _ => false end
  | GLit l :: p' => prefixb l s && glob_match p' (skipn (length l) s)
  | GStar :: p' => existsb (glob_match p') (suffixes s)
  end.

Definition any_glob (ps : list glob) (s : bytes) : bool := existsb (fun p => glob_match p s) ps.

(* ---- lemmas ---- *)
Lemma suffixes_in s x : In x (suffixes s) <-> exists a, s = a ++ x.
Proof.
  induction s as [|c s IH]; simpl.
  - split.
    + intros [<-|[]]. now exists [].
    + intros [a Ha]. left. symmetry in Ha. apply app_eq_nil in Ha as [_ ->]. reflexivity.
  - split.
    + intros [<-|H]; [now exists []|]. apply IH in H as [a ->]. now exists (c :: a).
    + intros [a Ha]. destruct a as [|d a]; [left; now simpl in Ha|].
      right. injection Ha as -> ->. apply IH. now exists a.
Qed.

Lemma suffixes_has_nil s : In [] (suffixes s).
Proof. apply suffixes_in. exists s. now rewrite app_nil_r. Qed.

Lemma skipn_app_exact {A} (l t : list A) : skipn (length l) (l ++ t) = t.
Proof. induction l as [|x l IH]; simpl; auto. Qed.

Lemma glob_lit_spec l s : glob_match [GLit l] s = true <-> s = l.
Proof.
  simpl. rewrite andb_true_iff, prefixb_spec. split.
  - intros [[t ->] H]. rewrite skipn_app_exact in H. destruct t; [now rewrite app_nil_r|discriminate].
  - intros ->. split; [exists []; now rewrite app_nil_r|].
    replace l with (l ++ []) at 2 by apply app_nil_r. now rewrite skipn_app_exact.
Qed.

Lemma glob_lit_star_spec l s : glob_match [GLit l; GStar] s = true <-> exists t, s = l ++ t.
Proof.
  cbn [glob_match]. rewrite andb_true_iff, prefixb_spec. split; [tauto|].
  intros H. split; [exact H|]. apply existsb_exists. exists []. split; [apply suffixes_has_nil|reflexivity].
Qed.

Lemma glob_star_lit_star_spec l s :
  glob_match [GStar; GLit l; GStar] s = true <-> exists a b, s = a ++ l ++ b.
Proof.
  change (glob_match [GStar; GLit l; GStar] s) with (existsb (glob_match [GLit l; GStar]) (suffixes s)).
  rewrite existsb_exists. split.
  - intros [x [Hx Hm]]. apply suffixes_in in Hx as [a ->]. apply glob_lit_star_spec in Hm as [t ->]. eauto.
  - intros [a [b ->]]. exists (l ++ b). split; [apply suffixes_in; eauto|]. apply glob_lit_star_spec. eauto.
Qed.
