(* NameMono.v - runs and REAL cleaning on one day, with build_id as the third
   body (largest suffix in use today plus one).

   [hstep]: a run = build_id_max composed with build_init on the tree of the
   cleaning model; a cleaning = robsd_clean_x (the faithful model of
   robsd-clean + purge, failures of mkdir/cp included), either while the most
   recent invocation runs (the lock file is the one lock_acquire wrote for it)
   or while nothing runs (no lock file), with any keep / count / keep-attic.

   For every sequence of such operations starting from a root whose
   invocations are all older than the day (their names sort below DATE.), as
   long as no more than nine invocations were made that day:
   - the k-th run of the day is named DATE.k, whatever has been cleaned away in
     between: no name is handed out twice, names are never re-issued below
     names that exist;
   - the names strictly increase in the order robsd-ls uses, so among the
     invocations present name order is creation order;
   - hence the newest-first list by AGE is the newest-first list by name and
     C16's kept set is the set of the most recently created
     (reach_ages / kept_most_recent).
   Beyond nine a day this fails (reuse_after_ten: eleven runs, `robsd-clean 1`
   keeps DATE.9 and archives DATE.10 and DATE.11, the next run is DATE.10 a
   second time). *)
From Coq Require Import String.
From Robsd Require Import Inv.NameNewDefs Inv.NameSpec Inv.NameProofs Inv.NameMax Inv.NameNew
  Inv.PurgeSpec Inv.PurgeProofs Inv.LsSpec Inv.LsProofs Inv.PurgeComplete Inv.PurgeOracle Inv.PurgeTotal
  Inv.PurgeBlocked Inv.PurgeFaithful.
From Coq Require Import Arith Lia.
Local Open Scope N_scope.

(* ---- the operations ---- *)
Inductive hop :=
| HRun
| HClean (keep_conf : nat) (count : option nat) (keep_attic : bool) (during : bool).

Definition new_invocation_max (d start base : bytes) (f : fstree) : bytes * (N * fstree) :=
  let id := build_id_max d start base (view f) in (id, fs_build_init f id).

(* the lock file during the most recent invocation / when nothing runs *)
Definition hlock (rootstr : bytes) (born : list bytes) (during : bool) : option bytes :=
  if during then match rev born with id :: _ => lock_written (mkpath rootstr id) | [] => None end else None.

Definition hrunning (born : list bytes) (during : bool) : option bytes :=
  if during then match rev born with id :: _ => Some id | [] => None end else None.

Definition hstep (rootstr d start base : bytes) (st : fstree * list bytes) (o : hop) : fstree * list bytes :=
  match o with
  | HRun => let r := new_invocation_max d start base (fst st) in (snd (snd r), snd st ++ [fst r])
  | HClean kc cnt ka during =>
      (snd (robsd_clean_x_exec rootstr kc cnt ka (hlock rootstr (snd st) during) (fst st)), snd st)
  end.

Definition hrun (rootstr d start base : bytes) (f0 : fstree) (ops : list hop) : fstree * list bytes :=
  fold_left (hstep rootstr d start base) ops (f0, []).

(* ---- well-formed trees stay well-formed ---- *)
Lemma wf_add f p n : wf_tree f -> has_path p f = false -> comps_ok p -> wf_tree (f ++ [mkfs p n]).
Proof.
  intros [Hnd Hc] Hp Hok. split.
  - rewrite map_app. simpl. apply NoDup_app_one; [exact Hnd|].
    intros Hin. apply in_map_iff in Hin as [e [He Hin]].
    assert (has_path p f = true) by (apply has_path_in; eauto). congruence.
  - apply Forall_app. split; [exact Hc|]. constructor; [exact Hok|constructor].
Qed.

Lemma wf_fs_mkdir p f f' : wf_tree f -> comps_ok p -> fs_mkdir p f = Some f' -> wf_tree f'.
Proof.
  unfold fs_mkdir. intros Hwf Hok. destruct (is_dir_at p f); [now intros [= <-]|].
  destruct (has_path p f) eqn:E; [discriminate|]. intros [= <-]. now apply wf_add.
Qed.

Lemma wf_fs_create p f : wf_tree f -> comps_ok p -> wf_tree (fs_create p f).
Proof. unfold fs_create. intros Hwf Hok. destruct (has_path p f) eqn:E; [exact Hwf|now apply wf_add]. Qed.

Lemma wf_build_init f id : wf_tree f -> ~ In 47 id -> wf_tree (snd (fs_build_init f id)).
Proof.
  intros Hwf Hid. unfold fs_build_init.
  assert (H1 : comps_ok [id]) by (repeat constructor; exact Hid).
  assert (Ht : ~ In 47 name_tmp) by (vm_compute; intuition discriminate).
  assert (Hl : ~ In 47 name_robsd_log) by (vm_compute; intuition discriminate).
  assert (Hs : ~ In 47 name_step_csv) by (vm_compute; intuition discriminate).
  destruct (fs_mkdir [id] f) as [f1|] eqn:E1; [|exact Hwf]. apply (wf_fs_mkdir _ _ _ Hwf H1) in E1.
  destruct (fs_mkdir [id; name_tmp] f1) as [f2|] eqn:E2; [|exact E1].
  apply (wf_fs_mkdir _ _ _ E1) in E2; [|repeat constructor; assumption]. cbn [snd].
  apply wf_fs_create; [apply wf_fs_create; [exact E2|]|]; repeat constructor; assumption.
Qed.

Lemma wf_strip f v : wf_tree f -> wf_tree (strip_victim f v).
Proof.
  intros [Hnd Hc]. unfold strip_victim. split.
  - now apply nodup_paths_filter, nodup_paths_filter.
  - rewrite Forall_forall in *. intros e He. apply Hc. apply filter_In in He as [He _]. now apply filter_In in He as [He _].
Qed.

Lemma wf_mkdir_one f p : wf_tree f -> comps_ok p -> wf_tree (mkdir_one f p).
Proof. unfold mkdir_one. intros Hwf Hok. destruct (has_path p f) eqn:E; [exact Hwf|now apply wf_add]. Qed.

Lemma wf_mkdirs ps : forall f ok f', wf_tree f -> Forall comps_ok ps -> mkdirs ps f = (ok, f') -> wf_tree f'.
Proof.
  induction ps as [|p ps IH]; intros f ok f' Hwf Hok H; simpl in H; [now injection H as _ <-|].
  inversion Hok; subst. destruct (nondir_at p f); [now injection H as _ <-|].
  eapply IH; [|eassumption|exact H]. now apply wf_mkdir_one.
Qed.

Lemma attic_comps_ok : comps_ok [name_attic].
Proof. repeat constructor. apply attic_no_slash. Qed.

Lemma wf_purge_one_x f v ok f' : wf_tree f -> ~ In 47 v -> purge_one_x f v = (ok, f') -> wf_tree f'.
Proof.
  intros Hwf Hv. unfold purge_one_x. destruct (nondir_at [name_attic] f); [now intros [= _ <-]|].
  destruct (mkdirs _ _) as [okm f2] eqn:Em.
  assert (Hf2 : wf_tree f2).
  { eapply wf_mkdirs; [| |exact Em].
    - apply wf_strip, wf_mkdir_one; [exact Hwf|apply attic_comps_ok].
    - apply Forall_forall. intros p Hp. apply (attic_parents_ok v). now right. }
  destruct okm; [|now intros [= _ <-]].
  destruct (nondir_at (attic_dst v) f2); [now intros [= _ <-]|]. intros [= _ <-]. now apply wf_purge_one.
Qed.

Lemma wf_purge_all_x vs : forall f, wf_tree f -> Forall (fun v => ~ In 47 v) vs -> wf_tree (snd (purge_all_x vs f)).
Proof.
  induction vs as [|v vs IH]; intros f Hwf Hvs; simpl; [exact Hwf|]. inversion Hvs; subst.
  destruct (purge_one_x f v) as [[|] f1] eqn:E; simpl.
  - pose proof (wf_purge_one_x _ _ _ _ Hwf H1 E) as H. specialize (IH f1 H H2).
    destruct (purge_all_x vs f1). exact IH.
  - exact (wf_purge_one_x _ _ _ _ Hwf H1 E).
Qed.

Lemma wf_remove_all vs : forall f, wf_tree f -> wf_tree (fold_left remove_tree vs f).
Proof.
  induction vs as [|v vs IH]; intros f Hwf; simpl; [exact Hwf|]. apply IH. destruct Hwf as [Hnd Hc].
  unfold remove_tree. split; [now apply nodup_paths_filter|].
  rewrite Forall_forall in *. intros e He. apply Hc. now apply filter_In in He as [He _].
Qed.

Lemma basename_str_noslash p : ~ In 47 (basename_str p).
Proof.
  unfold basename_str. assert (H : forall s cur, ~ In 47 cur -> ~ In 47 (after_last_slash s cur)).
  { induction s as [|c s IH]; intros cur Hc; cbn [after_last_slash].
    - intros Hin. apply in_rev in Hin. contradiction.
    - destruct (c =? 47) eqn:E; [apply IH; intros []|]. apply N.eqb_neq in E.
      apply IH. intros [Heq|Hin]; [congruence|contradiction]. }
  apply H. intros [].
Qed.

Lemma wf_clean_x sortf rootstr kc cnt ka lock f :
  wf_tree f -> wf_tree (snd (robsd_clean_x sortf rootstr kc cnt ka lock f)).
Proof.
  intros Hwf. destruct (Nat.eq_dec (effective_keep kc cnt) 0) as [E|E].
  - unfold robsd_clean_x. now rewrite E.
  - rewrite clean_x_tree by exact E. destruct ka; [|now apply wf_remove_all].
    apply wf_purge_all_x; [exact Hwf|]. unfold victim_list. apply Forall_forall. intros v Hv.
    apply in_map_iff in Hv as [p [<- _]]. apply basename_str_noslash.
Qed.

Lemma fs_create_keeps p f e : In e f -> In e (fs_create p f).
Proof. destruct (fs_create_extends p f) as [-> | ->]; [auto|]. intros H. apply in_or_app. now left. Qed.

Lemma fs_build_init_has_dir f id :
  has_path [id] f = false -> In (mkfs [id] FDir) (snd (fs_build_init f id)).
Proof.
  intros Hf. unfold fs_build_init.
  assert (E1 : fs_mkdir [id] f = Some (f ++ [mkfs [id] FDir])).
  { unfold fs_mkdir. destruct (is_dir_at [id] f) eqn:E; [apply is_dir_has_path in E; congruence|]. now rewrite Hf. }
  rewrite E1. set (f1 := f ++ [mkfs [id] FDir]).
  assert (H1 : In (mkfs [id] FDir) f1) by (apply in_or_app; right; now left).
  destruct (fs_mkdir [id; name_tmp] f1) as [f2|] eqn:E2; [|exact H1]. cbn [snd].
  apply fs_create_keeps, fs_create_keeps.
  apply fs_mkdir_extends in E2 as [-> | ->]; [exact H1|apply in_or_app; now left].
Qed.

Lemma hidden_app a b : a <> [] -> hidden (a ++ b) = hidden a.
Proof. destruct a; [intros H; now elim H|reflexivity]. Qed.

(* the names the third body hands out on a date Y-M-D are of the shape the attic
   theorems of C16 need *)
Lemma date_shaped_with_suffixN y m dd k :
  dashfree y -> dashfree m -> dashfree dd -> date_shaped (with_suffixN (y ++ 45 :: m ++ 45 :: dd) k).
Proof.
  intros Hy Hm [Hd0 [Hd1 Hd2]]. exists y, m, (dd ++ 46 :: decN k). split.
  - unfold with_suffixN. rewrite <- app_assoc. cbn [app]. now rewrite <- app_assoc.
  - split; [exact Hy|]. split; [exact Hm|]. split; [|split].
    + destruct dd; [now elim Hd0|discriminate].
    + intros H. apply in_app_or in H as [H|[H|H]]; [contradiction|discriminate|]. revert H. now apply decN_no.
    + intros H. apply in_app_or in H as [H|[H|H]]; [contradiction|discriminate|]. revert H. now apply decN_no.
Qed.

(* ---- the day and the root the history starts from ---- *)
Section Day.
  Variables rootstr d start base : bytes.
  Variable f0 : fstree.
  Hypothesis root_nonl : nonl rootstr.
  Hypothesis root_nonul : nonul rootstr.
  (* the date is Y-M-D *)
  Variables y m dd : bytes.
  Hypothesis d_shape : d = y ++ 45 :: m ++ 45 :: dd.
  Hypothesis y_ok : dashfree y.
  Hypothesis m_ok : dashfree m.
  Hypothesis dd_ok : dashfree dd /\ ~ In 46 dd /\ nonl d /\ nonul d.
  Hypothesis d_visible : hidden d = false.
  Hypothesis f0_wf : wf_tree f0.
  (* nothing in the root carries a name of this day yet *)
  Hypothesis f0_day : forall e x, In e f0 -> f_path e = [x] -> prefixb (d ++ [46]) x = false.
  (* the invocations that exist are older: their names sort below DATE. *)
  Hypothesis f0_older : forall v, invocation f0 v -> blt v (d ++ [46]).

  Definition nth_name (k : nat) : bytes := with_suffixN d (N.of_nat k).
  Definition names_upto (n : nat) : list bytes := map nth_name (seq 1 n).

  Lemma d_noslash : ~ In 47 d.
  Proof.
    rewrite d_shape. destruct y_ok as [_ [_ Hy]], m_ok as [_ [_ Hm]], dd_ok as [[_ [_ Hd]] _].
    intros H. apply in_app_or in H as [H|[H|H]]; [contradiction|discriminate|].
    apply in_app_or in H as [H|[H|H]]; [contradiction|discriminate|contradiction].
  Qed.

  Lemma nth_noslash k : ~ In 47 (nth_name k).
  Proof.
    unfold nth_name, with_suffixN. intros H. apply in_app_or in H as [H|[H|H]];
      [now apply d_noslash|discriminate|]. revert H. now apply decN_no.
  Qed.

  Lemma nth_date_shaped k : date_shaped (nth_name k).
  Proof.
    exists y, m, (dd ++ 46 :: decN (N.of_nat k)). split.
    - unfold nth_name, with_suffixN. rewrite d_shape. rewrite <- app_assoc. cbn [app]. now rewrite <- app_assoc.
    - split; [exact y_ok|]. split; [exact m_ok|]. destruct dd_ok as [[Hd0 [Hd1 Hd2]] _]. split; [|split].
      + destruct dd; [now elim Hd0|discriminate].
      + intros H. apply in_app_or in H as [H|[H|H]]; [contradiction|discriminate|]. revert H. now apply decN_no.
      + intros H. apply in_app_or in H as [H|[H|H]]; [contradiction|discriminate|]. revert H. now apply decN_no.
  Qed.

  Lemma nth_nonl k : nonl (nth_name k) /\ nonul (nth_name k).
  Proof.
    destruct dd_ok as [_ [_ [Hl Hu]]]. unfold nth_name, with_suffixN, nonl, nonul. split.
    - apply Forall_app. split; [exact Hl|]. constructor; [discriminate|].
      apply Forall_forall. intros c Hc Hn. subst c. revert Hc. now apply decN_no.
    - apply Forall_app. split; [exact Hu|]. constructor; [discriminate|].
      apply Forall_forall. intros c Hc Hn. subst c. revert Hc. now apply decN_no.
  Qed.

  Lemma attic_not_today : prefixb (d ++ [46]) name_attic = false.
  Proof.
    destruct (prefixb (d ++ [46]) name_attic) eqn:E; [|reflexivity]. exfalso.
    apply prefixb_spec in E as [t Ht]. apply attic_no_dash. rewrite Ht, d_shape.
    apply in_or_app. left. apply in_or_app. left. apply in_or_app. right. now left.
  Qed.

  Lemma nth_day_suffix k : (1 <= k)%nat -> day_suffix d (nth_name k) = Some (N.of_nat k).
  Proof. intros Hk. apply day_suffix_own. lia. Qed.

  Lemma nth_inj j k : nth_name j = nth_name k -> j = k.
  Proof. intros H. apply with_suffixN_inj in H. lia. Qed.

  (* ---- the invariant ---- *)
  Definition minv (st : fstree * list bytes) : Prop :=
    let '(f, born) := st in
    wf_tree f /\
    born = names_upto (length born) /\
    (forall e x, In e f -> f_path e = [x] ->
       In e f0 \/ (In x born /\ f_node e = FDir) \/ x = name_attic) /\
    (born <> [] -> In (mkfs [last born []] FDir) f).

  Lemma names_upto_S n : names_upto (S n) = names_upto n ++ [nth_name (S n)].
  Proof. unfold names_upto. rewrite seq_S, map_app. reflexivity. Qed.

  Lemma names_upto_in n x : In x (names_upto n) <-> exists k, (1 <= k <= n)%nat /\ x = nth_name k.
  Proof.
    unfold names_upto. rewrite in_map_iff. split.
    - intros [k [<- Hk]]. apply in_seq in Hk. exists k. split; [lia|reflexivity].
    - intros [k [Hk ->]]. exists k. split; [reflexivity|]. apply in_seq. lia.
  Qed.

  Lemma names_upto_last n : last (names_upto (S n)) [] = nth_name (S n).
  Proof. rewrite names_upto_S. apply last_last. Qed.

  Lemma names_upto_length n : length (names_upto n) = n.
  Proof. unfold names_upto. now rewrite map_length, seq_length. Qed.

  (* the largest suffix in use is the number of invocations made so far *)
  Lemma top_level_view f x : In x (top_level (view f)) <-> exists e, In e f /\ f_path e = [x].
  Proof.
    unfold top_level, view. rewrite in_flat_map. split.
    - intros [e' [He' Hx]]. apply in_map_iff in He' as [e [<- He]]. exists e. split; [exact He|].
      unfold ent_of in Hx. cbn [e_path] in Hx. destruct (f_path e) as [|a [|b r]]; simpl in Hx; try contradiction.
      destruct Hx as [->|[]]. reflexivity.
    - intros [e [He Hp]]. exists (ent_of e). split; [now apply in_map|]. unfold ent_of. cbn [e_path]. rewrite Hp. now left.
  Qed.

  Lemma minv_max f born : minv (f, born) -> max_suffix d (top_level (view f)) = N.of_nat (length born).
  Proof.
    intros [Hwf [Hb [Htop Hlast]]].
    assert (Hle : forall x k, In x (top_level (view f)) -> day_suffix d x = Some k -> k <= N.of_nat (length born)).
    { intros x k Hx Hk. apply top_level_view in Hx as [e [He Hp]].
      destruct (Htop e x He Hp) as [H0|[[Hin _]|Ha]].
      - unfold day_suffix in Hk. now rewrite (f0_day e x H0 Hp) in Hk.
      - rewrite Hb in Hin. apply names_upto_in in Hin as [j [Hj ->]]. rewrite nth_day_suffix in Hk by lia.
        injection Hk as <-. lia.
      - subst x. unfold day_suffix in Hk. now rewrite attic_not_today in Hk. }
    apply N.le_antisymm.
    - destruct (max_suffix_attained d (top_level (view f))) as [->|[x [Hx Hk]]]; [lia|]. now apply (Hle x).
    - destruct born as [|b0 born'] eqn:Eb; [simpl; lia|].
      assert (Hne : b0 :: born' <> []) by discriminate. specialize (Hlast Hne).
      set (n := length (b0 :: born')) in *. assert (Hn : n = S (length born')) by reflexivity.
      rewrite Hb in Hlast. fold n in Hlast. rewrite Hn, names_upto_last in Hlast. rewrite Hn.
      apply (max_suffix_in d _ (nth_name (S (length born')))).
      + apply top_level_view. eexists. split; [exact Hlast|reflexivity].
      + apply nth_day_suffix. lia.
  Qed.

  Lemma minv_init : minv (f0, []).
  Proof.
    split; [exact f0_wf|]. split; [reflexivity|]. split; [intros e x He _; now left|]. intros H. now elim H.
  Qed.

  (* a run *)
  Lemma minv_run f born :
    minv (f, born) -> minv (hstep rootstr d start base (f, born) HRun) /\
    fst (new_invocation_max d start base f) = nth_name (S (length born)).
  Proof.
    intros Hinv. pose proof (minv_max f born Hinv) as Hmax. destruct Hinv as [Hwf [Hb [Htop Hlast]]].
    assert (Hid : build_id_max d start base (view f) = nth_name (S (length born))).
    { unfold build_id_max, gen_build_id_max, nth_name. rewrite Hmax. f_equal. lia. }
    split; [|exact Hid]. unfold hstep, new_invocation_max. cbn [fst snd]. rewrite Hid.
    set (id := nth_name (S (length born))).
    assert (Hfresh : has_path [id] f = false).
    { rewrite <- has_top_view. unfold id. rewrite <- Hid. apply max_tree_fresh. }
    destruct (fs_build_init_extends f id) as [extra [He Hi]].
    assert (Hdir : In (mkfs [id] FDir) (snd (fs_build_init f id))) by now apply fs_build_init_has_dir.
    split; [apply wf_build_init; [exact Hwf|apply nth_noslash]|]. split; [|split].
    - rewrite app_length. simpl. rewrite Nat.add_1_r, names_upto_S. now rewrite <- Hb.
    - intros e x Hin Hp. rewrite He in Hin. apply in_app_or in Hin as [Hin|Hin].
      + destruct (Htop e x Hin Hp) as [H|[[H Hn]|H]]; [now left| |now right; right].
        right; left. split; [apply in_or_app; now left|exact Hn].
      + apply Hi in Hin. unfold fresh_entries in Hin. simpl in Hin.
        destruct Hin as [<-|[<-|[<-|[<-|[]]]]]; simpl in Hp; try discriminate.
        injection Hp as <-. right; left. split; [apply in_or_app; right; now left|reflexivity].
    - intros _. rewrite last_last. exact Hdir.
  Qed.

  (* the invocations present: old ones and those born today *)
  Lemma minv_invocation f born v :
    minv (f, born) -> invocation f v -> invocation f0 v \/ In v born.
  Proof.
    intros [_ [_ [Htop _]]] [Hin [Hh Hne]]. destruct (Htop _ v Hin eq_refl) as [H|[[H _]|H]]; [left|now right|contradiction].
    split; [exact H|auto].
  Qed.

  (* with at most nine born the most recent one is the greatest name *)
  Lemma last_is_greatest f born v :
    minv (f, born) -> (length born <= 9)%nat -> born <> [] ->
    invocation f v -> v <> last born [] -> blt v (last born []).
  Proof.
    intros Hinv Hn Hne Hv Hvl. pose proof Hinv as [_ [Hb _]].
    destruct born as [|b0 born']; [now elim Hne|]. set (n := length (b0 :: born')) in *.
    assert (Hn1 : n = S (length born')) by reflexivity.
    assert (Hlast : last (b0 :: born') [] = nth_name n) by (rewrite Hb; fold n; rewrite Hn1; apply names_upto_last).
    rewrite Hlast in *. destruct (minv_invocation _ _ v Hinv Hv) as [H0|Hin].
    - unfold nth_name. apply older_below_today. now apply f0_older.
    - rewrite Hb in Hin. fold n in Hin. apply names_upto_in in Hin as [k [Hk ->]].
      assert (k <> n) by (intros ->; now apply Hvl). unfold nth_name. apply with_suffixN_lt; lia.
  Qed.

  Lemma hlock_consistent f born during :
    minv (f, born) -> lock_consistent rootstr (hlock rootstr born during) (hrunning born during) f.
  Proof.
    intros Hinv. unfold hlock, hrunning. destruct during; [|reflexivity].
    destruct (rev born) as [|id r] eqn:Er; [reflexivity|].
    assert (Hb : born = rev r ++ [id]) by (rewrite <- (rev_involutive born), Er; reflexivity).
    assert (Hne : born <> []) by (rewrite Hb; destruct (rev r); discriminate).
    assert (Hl : last born [] = id) by (rewrite Hb; apply last_last).
    destruct Hinv as [Hwf [Hbn [_ Hlast]]]. specialize (Hlast Hne). rewrite Hl in Hlast.
    assert (Hid : exists k, id = nth_name k).
    { assert (Hin : In id born) by (rewrite Hb; apply in_or_app; right; now left).
      rewrite Hbn in Hin. apply names_upto_in in Hin as [k [_ ->]]. now exists k. }
    destruct Hid as [k ->]. destruct (nth_nonl k) as [Hnl Hnu].
    apply lock_consistent_new_invocation; auto. split; [exact Hlast|]. split.
    - unfold nth_name, with_suffixN. rewrite hidden_app; [exact d_visible|].
      rewrite d_shape. destruct y_ok as [Hy0 _]. destruct y; [now elim Hy0|discriminate].
    - intros E. pose proof (nth_date_shaped k) as Hs. now apply date_shaped_not_attic in Hs.
  Qed.

  Lemma last_born_name born : born = names_upto (length born) -> born <> [] -> last born [] = nth_name (length born).
  Proof.
    intros Hb Hne. destruct born as [|b0 born']; [now elim Hne|].
    rewrite Hb at 1. cbn [length]. apply names_upto_last.
  Qed.

  Lemma last_invocation f born : minv (f, born) -> born <> [] -> invocation f (last born []).
  Proof.
    intros Hinv Hne. pose proof Hinv as [_ [Hb [_ Hlast]]]. specialize (Hlast Hne).
    split; [exact Hlast|]. rewrite (last_born_name born Hb Hne).
    pose proof (nth_date_shaped (length born)) as Hsh. split.
    - unfold nth_name, with_suffixN. rewrite hidden_app; [exact d_visible|].
      rewrite d_shape. destruct y_ok as [Hy0 _]. destruct y; [now elim Hy0|discriminate].
    - now apply date_shaped_not_attic.
  Qed.

  Lemma head_is_last f born names :
    minv (f, born) -> (length born <= 9)%nat -> born <> [] -> newest_first f names ->
    exists rest, names = last born [] :: rest.
  Proof.
    intros Hinv Hn Hne [Hin Hs]. pose proof (last_invocation f born Hinv Hne) as Hl.
    apply Hin in Hl. destruct names as [|h rest]; [destruct Hl|]. exists rest. f_equal.
    destruct (bytes_eq_dec h (last born [])) as [E|E]; [exact E|]. exfalso.
    destruct Hl as [Hl|Hl]; [congruence|].
    inversion Hs as [|? ? _ Hall]; subst. rewrite Forall_forall in Hall. specialize (Hall _ Hl).
    assert (Hh : invocation f h) by (apply Hin; now left).
    pose proof (last_is_greatest f born h Hinv Hn Hne Hh E) as Hlt.
    exact (blt_irrefl _ (blt_trans _ _ _ Hall Hlt)).
  Qed.

  (* a cleaning, while the most recent invocation runs or while nothing runs *)
  Lemma minv_clean f born kc cnt ka during :
    minv (f, born) -> (length born <= 9)%nat ->
    minv (hstep rootstr d start base (f, born) (HClean kc cnt ka during)).
  Proof.
    intros Hinv Hn. pose proof Hinv as [Hwf [Hb [Htop Hlast]]]. unfold hstep. cbn [fst snd].
    unfold robsd_clean_x_exec.
    set (lock := hlock rootstr born during). set (running := hrunning born during).
    pose proof (hlock_consistent f born during Hinv) as Hlock. fold lock running in Hlock.
    destruct (clean_x_always isort rootstr kc cnt ka lock f) as [_ [Hnew Hout]]. cbv zeta in Hnew, Hout.
    split; [now apply wf_clean_x|]. split; [exact Hb|]. split.
    - intros e x He Hp. apply Hnew in He as [He|[_ Ha]]; [now apply (Htop e x)|].
      right; right. rewrite Hp, under_one_cons in Ha. apply beq_eq in Ha. now symmetry.
    - intros Hne. specialize (Hlast Hne).
      destruct (Nat.eq_dec (effective_keep kc cnt) 0) as [E0|Hne0].
      { now rewrite (final_zero_x isort rootstr f lock kc cnt ka E0). }
      apply Hout; [exact Hlast| |].
      + cbn [f_path]. rewrite under_one_cons. destruct (beq_spec name_attic (last born [])) as [E|_]; [|reflexivity].
        exfalso. rewrite (last_born_name born Hb Hne) in E.
        pose proof (nth_date_shaped (length born)) as Hs. rewrite <- E in Hs. now apply date_shaped_not_attic in Hs.
      + intros v Hv. cbn [f_path]. rewrite under_one_cons.
        destruct (beq_spec v (last born [])) as [->|_]; [|reflexivity]. exfalso.
        destruct (victim_list_is isort isort_sorts rootstr f lock running kc cnt Hwf Hlock Hne0) as [names [Hnf Hvl]].
        rewrite Hvl in Hv. assert (Hn1 : (1 <= effective_keep kc cnt)%nat) by lia.
        destruct (head_is_last f born names Hinv Hn Hne Hnf) as [rest ->].
        pose proof (ssorted_desc_nodup _ (proj2 Hnf)) as Hnd.
        assert (Hrun : match running with Some r => In r (last born [] :: rest) | None => True end).
        { eapply running_in_names; eassumption. }
        apply (kept_partition (last born [] :: rest) running _ (last born []) Hnd (or_introl eq_refl) Hn1 Hrun) in Hv.
        apply Hv. unfold kept_of. destruct running as [r|] eqn:Er.
        * assert (r = last born []).
          { unfold running, hrunning in Er. destruct during; [|discriminate].
            destruct (rev born) as [|id r'] eqn:Erev; [discriminate|]. injection Er as <-.
            rewrite <- (rev_involutive born), Erev. simpl. now rewrite last_last. }
          subst r. assert (Hm : memb (last born []) (last born [] :: rest) = true) by (apply memb_in; now left).
          rewrite Hm. now left.
        * destruct (effective_keep kc cnt); [lia|]. now left.
  Qed.

  (* ---- every reachable state ---- *)
  Definition is_run (o : hop) : bool := match o with HRun => true | _ => false end.
  Definition runs_of (ops : list hop) : nat := length (filter is_run ops).

  Lemma minv_reach ops : forall f born,
    minv (f, born) -> (length born + runs_of ops <= 9)%nat ->
    let st := fold_left (hstep rootstr d start base) ops (f, born) in
    minv st /\ length (snd st) = (length born + runs_of ops)%nat.
  Proof.
    induction ops as [|o ops IH]; intros f born Hinv Hn; cbn [fold_left].
    - split; [exact Hinv|]. unfold runs_of. simpl. lia.
    - destruct o as [|kc cnt ka during].
      + destruct (minv_run f born Hinv) as [Hinv' Hid].
        unfold hstep in *. cbn [fst snd] in *.
        unfold runs_of in *. cbn [filter is_run length] in *.
        specialize (IH _ _ Hinv'). rewrite app_length in IH. cbn [length] in IH.
        destruct IH as [H1 H2]; [lia|]. split; [exact H1|]. rewrite H2. lia.
      + assert (Hinv' := minv_clean f born kc cnt ka during Hinv ltac:(lia)).
        unfold hstep in *. cbn [fst snd] in *. unfold runs_of in *. cbn [filter is_run] in *.
        now apply IH.
  Qed.

  Lemma ssorted_snoc {A} (R : A -> A -> Prop) l x :
    StronglySorted R l -> Forall (fun a => R a x) l -> StronglySorted R (l ++ [x]).
  Proof.
    induction 1 as [|a l Hs IH Ha]; intros Hf; simpl; [repeat constructor|].
    inversion Hf; subst. constructor; [now apply IH|]. apply Forall_app. split; [exact Ha|]. now constructor.
  Qed.

  Lemma names_upto_sorted n : (n <= 9)%nat -> StronglySorted blt (names_upto n).
  Proof.
    induction n as [|n IH]; intros Hn; [constructor|]. rewrite names_upto_S. apply ssorted_snoc; [apply IH; lia|].
    apply Forall_forall. intros x Hx. apply names_upto_in in Hx as [k [Hk ->]]. unfold nth_name. apply with_suffixN_lt; lia.
  Qed.

  (* THE statement: the k-th run of the day is DATE.k whatever was cleaned in
     between; the names increase in listing order; nothing else is an invocation *)
  Theorem reach_names ops :
    (runs_of ops <= 9)%nat ->
    let st := hrun rootstr d start base f0 ops in
    wf_tree (fst st) /\
    snd st = names_upto (runs_of ops) /\
    NoDup (snd st) /\ StronglySorted blt (snd st) /\
    (forall v, invocation (fst st) v -> invocation f0 v \/ In v (snd st)) /\
    (forall v w, invocation f0 v -> In w (snd st) -> blt v w) /\
    (snd st <> [] -> invocation (fst st) (last (snd st) [])).
  Proof.
    intros Hn. cbv zeta. unfold hrun.
    destruct (minv_reach ops f0 [] minv_init) as [Hinv Hlen]; [simpl; lia|]. cbn [length Nat.add] in Hlen.
    destruct (fold_left _ ops (f0, [])) as [f born] eqn:E. cbn [fst snd] in *.
    pose proof Hinv as [Hwf [Hb [Htop Hlast]]]. rewrite Hlen in Hb.
    assert (Hs : StronglySorted blt born) by (rewrite Hb; now apply names_upto_sorted).
    split; [exact Hwf|]. split; [exact Hb|]. split; [|split; [exact Hs|split; [|split]]].
    - clear -Hs. induction Hs as [|a l Hs IH Ha]; constructor; [|exact IH].
      intros Hin. rewrite Forall_forall in Ha. exact (blt_irrefl _ (Ha _ Hin)).
    - intros v. now apply minv_invocation.
    - intros v w Hv Hw. rewrite Hb in Hw. apply names_upto_in in Hw as [k [_ ->]].
      unfold nth_name. apply older_below_today. now apply f0_older.
    - intros Hne. now apply last_invocation.
  Qed.

  (* ---- hence: the newest-first list by age is the newest-first list by name ---- *)
  Lemma ssorted_filter {A} (R : A -> A -> Prop) (g : A -> bool) l : StronglySorted R l -> StronglySorted R (filter g l).
  Proof.
    induction 1 as [|a l Hs IH Ha]; simpl; [constructor|]. destruct (g a); [|exact IH].
    constructor; [exact IH|]. rewrite Forall_forall in *. intros x Hx. apply Ha. now apply filter_In in Hx as [Hx _].
  Qed.

  Lemma ssorted_rev {A} (R : A -> A -> Prop) l : StronglySorted R l -> StronglySorted (fun a b => R b a) (rev l).
  Proof.
    induction 1 as [|a l Hs IH Ha]; simpl; [constructor|]. apply ssorted_snoc; [exact IH|].
    rewrite Forall_forall in *. intros x Hx. apply Ha. now apply in_rev.
  Qed.

  Lemma ssorted_app {A} (R : A -> A -> Prop) l1 l2 :
    StronglySorted R l1 -> StronglySorted R l2 -> (forall a b, In a l1 -> In b l2 -> R a b) ->
    StronglySorted R (l1 ++ l2).
  Proof.
    induction 1 as [|a l Hs IH Ha]; intros H2 Hc; simpl; [exact H2|].
    constructor; [apply IH; [exact H2|intros; apply Hc; [now right|assumption]]|].
    apply Forall_app. split; [exact Ha|]. apply Forall_forall. intros b Hb. apply Hc; [now left|exact Hb].
  Qed.

  (* the invocations by age, newest first: those born today in reverse order of
     birth, then the older ones (by name - their dates) *)
  Definition ages_of (f : fstree) (born : list bytes) : list bytes :=
    rev (filter (invocation_b f) born) ++ filter (invocation_b f) (invocations_desc f0).

  Theorem reach_ages ops :
    (runs_of ops <= 9)%nat ->
    let st := hrun rootstr d start base f0 ops in
    let ages := ages_of (fst st) (snd st) in
    age_list (fst st) ages /\ StronglySorted (fun a b => blt b a) ages /\ ages = invocations_desc (fst st).
  Proof.
    intros Hn. cbv zeta. destruct (reach_names ops Hn) as [Hwf [Hb [Hnd [Hs [Hinv [Hold _]]]]]].
    set (f := fst (hrun rootstr d start base f0 ops)) in *. set (born := snd (hrun rootstr d start base f0 ops)) in *.
    pose proof (invocations_desc_newest f0 f0_wf) as [Hin0 Hs0].
    assert (Hsorted : StronglySorted (fun a b => blt b a) (ages_of f born)).
    { unfold ages_of. apply ssorted_app.
      - apply (ssorted_rev blt). now apply ssorted_filter.
      - now apply ssorted_filter.
      - intros a b Ha Hb'. apply in_rev in Ha. apply filter_In in Ha as [Ha _]. apply filter_In in Hb' as [Hb' _].
        apply Hold; [now apply Hin0|exact Ha]. }
    assert (Hmem : forall v, In v (ages_of f born) <-> invocation f v).
    { intros v. unfold ages_of. rewrite in_app_iff, <- in_rev, !filter_In, invocation_b_spec. split.
      - intros [[_ H]|[_ H]]; exact H.
      - intros H. destruct (Hinv v H) as [H0|Hb']; [right|left]; (split; [|exact H]); [now apply Hin0|exact Hb']. }
    split; [split; [exact Hmem|now apply ssorted_desc_nodup]|]. split; [exact Hsorted|].
    apply (newest_first_unique f); [now split|now apply invocations_desc_newest].
  Qed.

  (* ... and C16's kept set is the set of the most recently created *)
  Theorem kept_most_recent ops kc cnt ka during :
    (runs_of ops <= 9)%nat -> effective_keep kc cnt <> 0%nat ->
    let st := hrun rootstr d start base f0 ops in
    let lock := hlock rootstr (snd st) during in
    let running := hrunning (snd st) during in
    (ka = true -> completes isort rootstr kc cnt lock (fst st)) ->
    let n := effective_keep kc cnt in
    let after := snd (robsd_clean_x_exec rootstr kc cnt ka lock (fst st)) in
    let ages := ages_of (fst st) (snd st) in
    (forall v, invocation after v <-> In v (kept_of ages running n)) /\
    length (kept_of ages running n) = Nat.min n (length ages).
  Proof.
    intros Hn Hne. cbv zeta. intros Hc.
    destruct (reach_ages ops Hn) as [Hal [Hs _]].
    destruct (minv_reach ops f0 [] minv_init) as [Hinv _]; [simpl; lia|].
    fold (hrun rootstr d start base f0 ops) in Hinv.
    destruct (hrun rootstr d start base f0 ops) as [f born] eqn:E. cbn [fst snd] in *.
    pose proof Hinv as [Hwf _].
    exact (kept_by_age isort rootstr f _ _ kc cnt ka _ isort_sorts Hwf (hlock_consistent f born during Hinv) Hne Hc Hal Hs).
  Qed.
End Day.

(* ---- beyond nine a day ---- *)
Local Open Scope string_scope.
Definition ten_ops : list hop :=
  [HRun; HRun; HRun; HRun; HRun; HRun; HRun; HRun; HRun; HRun; HRun; HClean 0 (Some 1%nat) true false; HRun].

(* eleven invocations on one day; `robsd-clean 1` while nothing runs keeps
   DATE.9 - the greatest name - and archives DATE.10 and DATE.11; the next
   invocation is DATE.10 a second time *)
Lemma reuse_after_ten :
  let st := hrun (bs "/r") (bs "2024-03-05") (bs "/r") (bs "r") [] ten_ops in
  nth 9 (snd st) [] = bs "2024-03-05.10" /\ nth 11 (snd st) [] = bs "2024-03-05.10" /\
  invocations_desc (fst st) = [bs "2024-03-05.9"; bs "2024-03-05.10"] /\
  is_dir_at [bs "attic"; bs "2024"; bs "03"; bs "05.10"] (fst st) = true.
Proof. vm_compute. repeat split; reflexivity. Qed.

(* ---- the second body (count+1 advanced to the next free suffix, /repo 70fb0eb),
   historical: two runs, the first cleaned away, a third run, the second cleaned
   away, a fourth run - the fourth is handed DATE.2 a second time (no collision
   flag: the name is free NOW), and DATE.2 sorts below DATE.3, which exists.
   The third body hands out DATE.4 ---- *)
Lemma next_free_reissues :
  let d := bs "2024-03-05" in
  let ops := [Run d; Run d; Remove [bs "2024-03-05.1"]; Run d; Remove [bs "2024-03-05.2"]; Run d] in
  history gen_build_id_fixed [] ops =
    ([bs "2024-03-05.3"; bs "2024-03-05.2"],
     [(bs "2024-03-05.1", false); (bs "2024-03-05.2", false); (bs "2024-03-05.3", false); (bs "2024-03-05.2", false)]) /\
  bltb (bs "2024-03-05.2") (bs "2024-03-05.3") = true /\
  map fst (snd (history gen_build_id_max [] ops)) =
    [bs "2024-03-05.1"; bs "2024-03-05.2"; bs "2024-03-05.3"; bs "2024-03-05.4"].
Proof. vm_compute. repeat split; reflexivity. Qed.

(* the third body under a removal that no cleaning performs: the NEWEST
   invocation deleted by hand - its name is handed out again *)
Lemma max_reissues_after_newest_removed :
  let d := bs "2024-03-05" in
  map fst (snd (history gen_build_id_max [] [Run d; Run d; Remove [bs "2024-03-05.2"]; Run d])) =
    [bs "2024-03-05.1"; bs "2024-03-05.2"; bs "2024-03-05.2"].
Proof. vm_compute. reflexivity. Qed.
