(* NameProofs.v - lemmas about build_id, build_init and log_id. *)
From Coq Require Import String.
From Robsd Require Export Inv.NameSpec.
From Coq Require Import Decimal DecimalNat Arith Sorting.Permutation.
Local Open Scope N_scope.

(* ---- decimal rendering ---- *)
Lemma uint_bytes_inj u : forall v, uint_bytes u = uint_bytes v -> u = v.
Proof.
  induction u as [|u IH|u IH|u IH|u IH|u IH|u IH|u IH|u IH|u IH|u IH];
    intros [|v|v|v|v|v|v|v|v|v|v]; simpl; intros H; try discriminate; try reflexivity;
    injection H as H; f_equal; auto.
Qed.

Lemma dec_inj a b : dec a = dec b -> a = b.
Proof.
  unfold dec. intros H. apply uint_bytes_inj in H.
  rewrite <- (Unsigned.of_to a), <- (Unsigned.of_to b). now rewrite H.
Qed.

Lemma uint_bytes_digits u : Forall (fun c => is_digit c = true) (uint_bytes u).
Proof. induction u; simpl; constructor; auto. Qed.

Lemma dec_digits n : Forall (fun c => is_digit c = true) (dec n).
Proof. apply uint_bytes_digits. Qed.

Lemma dec_nonempty n : dec n <> [].
Proof.
  unfold dec. intros H.
  assert (Hn : Nat.to_uint n = Nil) by (destruct (Nat.to_uint n); simpl in H; try discriminate; reflexivity).
  pose proof (Unsigned.of_to n) as Hof. rewrite Hn in Hof. simpl in Hof. subst n.
  vm_compute in Hn. discriminate.
Qed.

Lemma dec_no_dot n : ~ In 46 (dec n).
Proof.
  intros H. pose proof (dec_digits n) as Hd. rewrite Forall_forall in Hd.
  specialize (Hd _ H). discriminate.
Qed.

Lemma with_suffix_inj d j k : with_suffix d j = with_suffix d k -> j = k.
Proof.
  unfold with_suffix. intros H. apply app_inv_head in H. injection H as H. now apply dec_inj.
Qed.

(* x.u = y.v with no further dot in u, v: the last dot is where both split *)
Lemma split_last_dot x : forall y u v,
  ~ In 46 u -> ~ In 46 v -> x ++ 46 :: u = y ++ 46 :: v -> x = y /\ u = v.
Proof.
  induction x as [|a x IH]; intros [|b y] u v Hu Hv H; simpl in H.
  - injection H as H. auto.
  - injection H as Hb H. subst. exfalso. apply Hu. apply in_or_app. right. now left.
  - injection H as Ha H. subst. exfalso. apply Hv. apply in_or_app. right. now left.
  - injection H as -> H. destruct (IH y u v Hu Hv H) as [-> ->]. auto.
Qed.

Lemma with_suffix_split a b j k : with_suffix a j = with_suffix b k -> a = b /\ j = k.
Proof.
  unfold with_suffix. intros H.
  destruct (split_last_dot a b (dec j) (dec k) (dec_no_dot j) (dec_no_dot k) H) as [-> Hd].
  split; [reflexivity|now apply dec_inj].
Qed.

Lemma last_app_ne {A} (l1 l2 : list A) d : l2 <> [] -> last (l1 ++ l2) d = last l2 d.
Proof.
  intros Hne. induction l1 as [|a l1 IH]; [reflexivity|].
  simpl. destruct (l1 ++ l2) eqn:E; [|exact IH].
  apply app_eq_nil in E as [_ E]. contradiction.
Qed.

Lemma last_in {A} (l : list A) d : l <> [] -> In (last l d) l.
Proof.
  induction l as [|a l IH]; [contradiction|]. intros _.
  destruct l as [|b l]; [now left|]. right. apply IH. discriminate.
Qed.

Lemma with_suffix_last_digit s k : is_digit (last (with_suffix s k) 0) = true.
Proof.
  unfold with_suffix.
  rewrite last_app_ne by discriminate.
  change (46 :: dec k) with ([46] ++ dec k). rewrite last_app_ne by apply dec_nonempty.
  pose proof (dec_digits k) as Hd. rewrite Forall_forall in Hd. apply Hd.
  apply last_in, dec_nonempty.
Qed.

Lemma prefixb_refl a : prefixb a a = true.
Proof. apply prefixb_spec. exists []. now rewrite app_nil_r. Qed.

Lemma prefixb_with_suffix d k : prefixb d (with_suffix d k) = true.
Proof. apply prefixb_spec. now exists (46 :: dec k). Qed.

Lemma app_eq_length {A} (a : list A) : forall b x y,
  a ++ x = b ++ y -> length a = length b -> a = b.
Proof.
  induction a as [|c a IH]; intros [|e b] x y H Hl; simpl in *; try discriminate; [reflexivity|].
  injection H as -> H. injection Hl as Hl. f_equal. eapply IH; eassumption.
Qed.

Lemma prefix_same_length d d' k :
  length d' = length d -> prefixb d' (with_suffix d k) = true -> d' = d.
Proof.
  intros Hl H. apply prefixb_spec in H as [t Ht]. unfold with_suffix in Ht.
  symmetry. eapply app_eq_length; [exact Ht|now symmetry].
Qed.

(* ---- membership ---- *)
Lemma memb_in n l : memb n l = true <-> In n l.
Proof.
  unfold memb. rewrite existsb_exists. split.
  - intros [x [Hx Hb]]. apply beq_eq in Hb. now subst.
  - intros H. exists n. split; [exact H|apply beq_refl].
Qed.

Lemma memb_false n l : memb n l = false <-> ~ In n l.
Proof.
  rewrite <- memb_in. destruct (memb n l); split; intros H.
  - discriminate.
  - exfalso. now apply H.
  - discriminate.
  - reflexivity.
Qed.

Lemma has_top_in name tree :
  has_top name tree = true <-> exists e, In e tree /\ e_path e = [name].
Proof.
  unfold has_top. rewrite existsb_exists. split.
  - intros [e [He Ht]]. exists e. split; [exact He|].
    unfold is_top in Ht. destruct (e_path e) as [|n [|m p]]; try discriminate.
    apply beq_eq in Ht. now subst.
  - intros [e [He Hp]]. exists e. split; [exact He|]. unfold is_top. rewrite Hp. apply beq_refl.
Qed.

Lemma has_top_fresh name tree : has_top name tree = false <-> fresh_in name tree.
Proof.
  unfold fresh_in. split.
  - intros H e He Hp.
    assert (Ht : has_top name tree = true) by (apply has_top_in; eauto). congruence.
  - intros H. destruct (has_top name tree) eqn:E; [|reflexivity].
    apply has_top_in in E as [e [He Hp]]. exfalso. eapply H; eassumption.
Qed.

(* ---- build_id on a flat root ---- *)
Lemma flat_lines d start names :
  nlcount start = 0%nat -> Forall (fun n => nlcount n = 0%nat) names ->
  list_sum (map (entry_lines start (date_test d)) (flat_tree names)) = length (filter (prefixb d) names).
Proof.
  intros Hs. induction 1 as [|n names Hn _ IH]; simpl; [reflexivity|].
  rewrite IH. unfold entry_lines, date_test. simpl.
  change (basename [n]) with n.
  destruct (prefixb d n); simpl; [|reflexivity].
  rewrite Hs, Hn. reflexivity.
Qed.

Lemma build_id_flat d start base names :
  prefixb d base = false -> nlcount start = 0%nat -> Forall (fun n => nlcount n = 0%nat) names ->
  build_id d start base (flat_tree names) = gen_build_id d names.
Proof.
  intros Hb Hs Hn. unfold build_id, gen_build_id, find_lines.
  unfold date_test at 1. simpl. rewrite Hb. simpl. now rewrite flat_lines.
Qed.

Lemma NoDup_app_one {A} (l : list A) x : NoDup l -> ~ In x l -> NoDup (l ++ [x]).
Proof.
  intros Hn Hx. induction Hn as [|a l Ha Hn IH]; simpl; [repeat constructor; auto|].
  constructor.
  - intros Hin. apply in_app_or in Hin as [Hin|[->|[]]]; [contradiction|]. apply Hx. now left.
  - apply IH. intros H. apply Hx. now right.
Qed.

Lemma history_cons gen s o ops :
  history gen s (o :: ops) =
  (fst (history gen (fst (op_step gen s o)) ops),
   match snd (op_step gen s o) with
   | Some x => x :: snd (history gen (fst (op_step gen s o)) ops)
   | None => snd (history gen (fst (op_step gen s o)) ops)
   end).
Proof.
  simpl. destruct (op_step gen s o) as [s1 r]. simpl.
  destruct (history gen s1 ops) as [s2 rs]. reflexivity.
Qed.

(* ---- the candidate repair ---- *)
Definition bytes_eq_dec : forall a b : bytes, {a = b} + {a <> b} := list_eq_dec N.eq_dec.

Lemma next_free_is_free (has : bytes -> bool) d : forall fuel L c,
  (forall k, (c <= k)%nat -> has (with_suffix d k) = true -> In (with_suffix d k) L) ->
  (length L < fuel)%nat ->
  has (with_suffix d (next_free has d c fuel)) = false.
Proof.
  induction fuel as [|f IH]; intros L c Hin Hlen; [lia|].
  simpl. destruct (has (with_suffix d c)) eqn:E; [|exact E].
  apply (IH (remove bytes_eq_dec (with_suffix d c) L)).
  - intros k Hk Hh. apply in_in_remove.
    + intros He. apply with_suffix_inj in He. lia.
    + apply Hin; [lia|exact Hh].
  - assert (Hc : In (with_suffix d c) L) by (apply Hin; [lia|exact E]).
    pose proof (remove_length_lt bytes_eq_dec L _ Hc). lia.
Qed.

Lemma next_free_ge has d : forall fuel c, (c <= next_free has d c fuel)%nat.
Proof.
  induction fuel as [|f IH]; intros c; simpl; [lia|].
  destruct (has (with_suffix d c)); [|lia]. specialize (IH (S c)). lia.
Qed.

Lemma fixed_flat_fresh d s : ~ In (gen_build_id_fixed d s) s.
Proof.
  apply memb_false. unfold gen_build_id_fixed.
  apply (next_free_is_free (fun n => memb n s) d (S (length s)) s).
  - intros k _ H. now apply memb_in.
  - lia.
Qed.

Definition tops (tree : list entry) : list bytes :=
  flat_map (fun e => match e_path e with [n] => [n] | _ => [] end) tree.

Lemma tops_length tree : (length (tops tree) <= length tree)%nat.
Proof.
  induction tree as [|e tree IH]; simpl; [lia|].
  rewrite app_length. destruct (e_path e) as [|n [|m p]]; simpl; lia.
Qed.

Lemma has_top_tops name tree : has_top name tree = true -> In name (tops tree).
Proof.
  intros H. apply has_top_in in H as [e [He Hp]]. unfold tops. apply in_flat_map.
  exists e. split; [exact He|]. rewrite Hp. now left.
Qed.

Lemma fixed_tree_fresh d start base tree :
  has_top (build_id_fixed d start base tree) tree = false.
Proof.
  unfold build_id_fixed.
  apply (next_free_is_free (fun n => has_top n tree) d (S (length tree)) (tops tree)).
  - intros k _ H. now apply has_top_tops.
  - pose proof (tops_length tree). lia.
Qed.

(* where the unrepaired generator is already fresh the repair changes nothing *)
Lemma fixed_agrees_when_fresh d start base tree :
  has_top (build_id d start base tree) tree = false ->
  build_id_fixed d start base tree = build_id d start base tree.
Proof. unfold build_id_fixed, build_id. simpl. intros ->. reflexivity. Qed.

Lemma fixed_named_after_count d start base tree :
  exists k, build_id_fixed d start base tree = with_suffix d k /\
            (S (find_lines start base (date_test d) tree) <= k)%nat.
Proof. unfold build_id_fixed. eexists. split; [reflexivity|apply next_free_ge]. Qed.

Lemma fixed_history_no_collision ops : forall s,
  no_collision (snd (history gen_build_id_fixed s ops)).
Proof.
  induction ops as [|o ops IH]; intros s; [constructor|].
  rewrite history_cons. simpl. destruct o as [d|vs]; simpl.
  - pose proof (fixed_flat_fresh d s) as Hf. apply memb_false in Hf. rewrite Hf. simpl.
    constructor; [reflexivity|apply IH].
  - apply IH.
Qed.

(* ---- build_init ---- *)
Lemma add_missing_keeps n names x : In x names -> In x (add_missing n names).
Proof. unfold add_missing. destruct (existsb (beq n) names); [auto|]. intros H. apply in_or_app. now left. Qed.

Lemma add_missing_has n names : In n (add_missing n names).
Proof.
  unfold add_missing. destruct (existsb (beq n) names) eqn:E.
  - apply existsb_exists in E as [y [Hy Hb]]. apply beq_eq in Hb. now subst.
  - apply in_or_app. right. now left.
Qed.

Lemma add_missing_only n names x : In x (add_missing n names) -> In x names \/ x = n.
Proof.
  unfold add_missing. destruct (existsb (beq n) names); [auto|].
  intros H. apply in_app_or in H as [H|[<-|[]]]; auto.
Qed.

Lemma build_init_reuses names :
  fst (build_init (Some names)) = 0 /\
  (forall x, In x names -> In x (snd (build_init (Some names)))) /\
  (forall x, In x (snd (build_init (Some names))) ->
     In x names \/ x = name_tmp \/ x = name_robsd_log \/ x = name_step_csv) /\
  In name_tmp (snd (build_init (Some names))) /\
  In name_robsd_log (snd (build_init (Some names))) /\
  In name_step_csv (snd (build_init (Some names))).
Proof.
  unfold build_init. simpl. split; [reflexivity|]. split; [|split; [|split; [|split]]].
  - intros x H. now repeat apply add_missing_keeps.
  - intros x H. apply add_missing_only in H as [H| ->]; [|tauto].
    apply add_missing_only in H as [H| ->]; [|tauto].
    apply add_missing_only in H as [H| ->]; tauto.
  - do 2 apply add_missing_keeps. apply add_missing_has.
  - apply add_missing_keeps. apply add_missing_has.
  - apply add_missing_has.
Qed.

(* ---- log_id ---- *)
Lemma find_lines_app start base test tree e :
  find_lines start base test (tree ++ [e]) =
  (find_lines start base test tree + entry_lines start test e)%nat.
Proof. unfold find_lines. rewrite map_app, list_sum_app. simpl. lia. Qed.

Lemma entry_lines_top_match start stem n k :
  prefixb stem n = true -> (1 <= entry_lines start (stem_test stem) (mkent [n] k))%nat.
Proof.
  intros H. unfold entry_lines, stem_test. simpl. change (basename [n]) with n. rewrite H. lia.
Qed.

Lemma list_sum_in_le x l : In x l -> (x <= list_sum l)%nat.
Proof. induction l as [|y l IH]; [intros []|]. intros [->|H]; simpl; [lia|]. specialize (IH H). lia. Qed.

Lemma top_match_counted start base stem n tree :
  has_top n tree = true -> prefixb stem n = true ->
  (1 <= find_lines start base (stem_test stem) tree)%nat.
Proof.
  intros Ht Hp. apply has_top_in in Ht as [e [He Hpath]]. unfold find_lines.
  assert (Hle : (entry_lines start (stem_test stem) e <= list_sum (map (entry_lines start (stem_test stem)) tree))%nat)
    by (apply list_sum_in_le, in_map, He).
  assert (H1 : (1 <= entry_lines start (stem_test stem) e)%nat).
  { unfold entry_lines, stem_test. rewrite Hpath. change (basename [n]) with n. rewrite Hp. lia. }
  lia.
Qed.

Lemma dot_log_last x : last (x ++ dot_log) 0 = 103.
Proof. rewrite last_app_ne by discriminate. reflexivity. Qed.

Lemma log_stem_shape step name : exists x, log_stem step name = x ++ dot_log.
Proof.
  unfold log_stem. exists (dec3 step ++ 45 :: tr_slash (echo_arg name)).
  now rewrite <- app_assoc.
Qed.

Lemma has_top_app name tree e :
  has_top name (tree ++ [e]) = has_top name tree || is_top name e.
Proof. unfold has_top. rewrite existsb_app. simpl. now rewrite orb_false_r. Qed.

Lemma attempt_fresh start base tree sn :
  log_inv start base tree -> has_top (fst (attempt start base tree sn)) tree = false.
Proof.
  intros Hinv. unfold attempt, log_id. simpl.
  destruct (log_stem_shape (fst sn) (snd sn)) as [x Hx]. rewrite Hx.
  destruct (find_lines start base (stem_test (x ++ dot_log)) tree) as [|c] eqn:Ec.
  - destruct (has_top (x ++ dot_log) tree) eqn:E; [|reflexivity].
    pose proof (top_match_counted start base (x ++ dot_log) _ tree E (prefixb_refl _)). lia.
  - destruct (has_top (with_suffix (x ++ dot_log) (S c)) tree) eqn:E; [|reflexivity].
    apply Hinv in E. lia.
Qed.

Lemma attempt_inv start base tree sn :
  log_inv start base tree -> log_inv start base (snd (attempt start base tree sn)).
Proof.
  intros Hinv y k Ht. pose proof (attempt_fresh start base tree sn Hinv) as Hfr.
  unfold attempt in *. simpl in *. rewrite Hfr in *.
  rewrite find_lines_app. rewrite has_top_app in Ht. apply orb_true_iff in Ht as [Ht|Ht].
  - apply Hinv in Ht. lia.
  - unfold is_top in Ht. simpl in Ht. apply beq_eq in Ht.
    unfold log_id in Ht.
    destruct (log_stem_shape (fst sn) (snd sn)) as [x Hx]. rewrite Hx in *.
    destruct (find_lines start base (stem_test (x ++ dot_log)) tree) as [|c] eqn:Ec.
    + exfalso. pose proof (with_suffix_last_digit (y ++ dot_log) k) as Hd.
      rewrite <- Ht, dot_log_last in Hd. discriminate.
    + apply with_suffix_split in Ht as [Hs <-]. rewrite <- Hs, Ec.
      unfold log_id. rewrite Hx, Ec.
      pose proof (entry_lines_top_match start (x ++ dot_log) (with_suffix (x ++ dot_log) (S c)) KFile
                    (prefixb_with_suffix _ _)). lia.
Qed.

Lemma attempts_fresh start base l : forall tree,
  log_inv start base tree -> fresh_trace start base tree l.
Proof.
  induction l as [|sn l IH]; intros tree Hinv; simpl; [exact I|].
  split; [now apply attempt_fresh|]. apply IH. now apply attempt_inv.
Qed.

Lemma attempts_shape start base l : forall tree,
  log_inv start base tree ->
  snd (attempts start base tree l) =
  tree ++ map (fun id => mkent [id] KFile) (fst (attempts start base tree l)).
Proof.
  induction l as [|sn l IH]; intros tree Hinv; simpl; [now rewrite app_nil_r|].
  pose proof (attempt_fresh start base tree sn Hinv) as Hf.
  pose proof (attempt_inv start base tree sn Hinv) as Hi.
  unfold attempt in Hf, Hi. simpl in Hf, Hi. rewrite Hf in *.
  specialize (IH _ Hi).
  destruct (attempts start base (tree ++ [mkent [log_id start base tree (fst sn) (snd sn)] KFile]) l) as [ids t2].
  simpl in *. rewrite IH, <- app_assoc. reflexivity.
Qed.

Lemma attempts_names_fresh start base l : forall tree,
  log_inv start base tree ->
  NoDup (fst (attempts start base tree l)) /\
  forall id, In id (fst (attempts start base tree l)) -> has_top id tree = false.
Proof.
  induction l as [|sn l IH]; intros tree Hinv; simpl; [split; [constructor|intros ? []]|].
  pose proof (attempt_fresh start base tree sn Hinv) as Hf.
  pose proof (attempt_inv start base tree sn Hinv) as Hi.
  unfold attempt in Hf, Hi. simpl in Hf, Hi. rewrite Hf in *.
  specialize (IH _ Hi).
  destruct (attempts start base (tree ++ [mkent [log_id start base tree (fst sn) (snd sn)] KFile]) l) as [ids t2].
  simpl in *. destruct IH as [Hnd Hfr]. split.
  - constructor; [|exact Hnd]. intros Hin. apply Hfr in Hin.
    rewrite has_top_app in Hin. apply orb_false_iff in Hin as [_ Hin].
    unfold is_top in Hin. simpl in Hin. rewrite beq_refl in Hin. discriminate.
  - intros id [<-|Hin]; [exact Hf|]. apply Hfr in Hin. rewrite has_top_app in Hin.
    now apply orb_false_iff in Hin as [Hin _].
Qed.

(* a build directory as build_init leaves it satisfies the invariant; so does
   any directory none of whose top-level names has the form STEM.log.<k> *)
Lemma log_inv_no_suffixed start base tree :
  (forall x k, has_top (with_suffix (x ++ dot_log) k) tree = false) -> log_inv start base tree.
Proof. intros H x k Ht. rewrite H in Ht. discriminate. Qed.

Definition fresh_builddir : list entry :=
  [mkent [name_tmp] KDir; mkent [name_robsd_log] KFile; mkent [name_step_csv] KFile].

Lemma log_inv_fresh_builddir start base : log_inv start base fresh_builddir.
Proof.
  apply log_inv_no_suffixed. intros x k.
  destruct (has_top (with_suffix (x ++ dot_log) k) fresh_builddir) eqn:E; [|reflexivity].
  apply has_top_in in E as [e [He Hp]].
  pose proof (with_suffix_last_digit (x ++ dot_log) k) as Hd.
  simpl in He. destruct He as [<-|[<-|[<-|[]]]]; simpl in Hp; injection Hp as Hp;
    rewrite <- Hp in Hd; vm_compute in Hd; discriminate.
Qed.

(* ---- the oracles mean what they say ---- *)
Lemma spec_ok_build_id_fresh date tree out :
  spec_ok_build_id date tree out = true -> fresh_in out tree /\ exists t, out = date ++ t.
Proof.
  unfold spec_ok_build_id, named_after. rewrite !andb_true_iff, negb_true_iff.
  intros [[Hp _] Hf]. split; [now apply has_top_fresh|now apply prefixb_spec].
Qed.

Lemma spec_ok_log_id_fresh tree step name out :
  spec_ok_log_id tree step name out = true -> fresh_in out tree.
Proof.
  unfold spec_ok_log_id. rewrite andb_true_iff, negb_true_iff. intros [_ Hf]. now apply has_top_fresh.
Qed.

Lemma attempts_inv start base l : forall tree,
  log_inv start base tree -> log_inv start base (snd (attempts start base tree l)).
Proof.
  induction l as [|sn l IH]; intros tree Hinv; simpl; [exact Hinv|].
  pose proof (attempt_fresh start base tree sn Hinv) as Hf.
  pose proof (attempt_inv start base tree sn Hinv) as Hi. unfold attempt in Hf, Hi. simpl in Hf, Hi.
  rewrite Hf in *. specialize (IH _ Hi).
  destruct (attempts start base (tree ++ [mkent [log_id start base tree (fst sn) (snd sn)] KFile]) l) as [ids t2].
  exact IH.
Qed.

Lemma log_id_fresh_all start base tree l :
  log_inv start base tree ->
  fresh_trace start base tree l /\
  NoDup (fst (attempts start base tree l)) /\
  (forall id, In id (fst (attempts start base tree l)) -> fresh_in id tree) /\
  snd (attempts start base tree l) =
    tree ++ map (fun id => mkent [id] KFile) (fst (attempts start base tree l)) /\
  log_inv start base (snd (attempts start base tree l)).
Proof.
  intros Hinv. split; [now apply attempts_fresh|].
  destruct (attempts_names_fresh start base l tree Hinv) as [Hnd Hfr].
  split; [exact Hnd|]. split; [intros id Hin; apply has_top_fresh; now apply Hfr|].
  split; [now apply attempts_shape|now apply attempts_inv].
Qed.

(* ---- the repaired generator on a flat root ---- *)
Lemma next_free_ext (h1 h2 : bytes -> bool) d :
  (forall n, h1 n = h2 n) -> forall fuel c, next_free h1 d c fuel = next_free h2 d c fuel.
Proof.
  intros He. induction fuel as [|f IH]; intros c; simpl; [reflexivity|].
  rewrite He. destruct (h2 (with_suffix d c)); [apply IH|reflexivity].
Qed.

Lemma has_top_flat n names : has_top n (flat_tree names) = memb n names.
Proof.
  unfold has_top, memb, flat_tree. induction names as [|x names IH]; simpl; [reflexivity|].
  rewrite IH. f_equal. unfold is_top. simpl.
  destruct (beq_spec x n) as [->|Hne]; [now rewrite beq_refl|].
  destruct (beq_spec n x) as [->|_]; [contradiction|reflexivity].
Qed.

Lemma build_id_fixed_flat d start base names :
  prefixb d base = false -> nlcount start = 0%nat -> Forall (fun n => nlcount n = 0%nat) names ->
  build_id_fixed d start base (flat_tree names) = gen_build_id_fixed d names.
Proof.
  intros Hb Hs Hn. unfold build_id_fixed, gen_build_id_fixed. f_equal.
  assert (Hc : find_lines start base (date_test d) (flat_tree names) = length (filter (prefixb d) names)).
  { unfold find_lines. unfold date_test at 1. cbn [ekind_is_dir andb]. rewrite Hb.
    rewrite flat_lines by assumption. reflexivity. }
  rewrite Hc.
  replace (length (flat_tree names)) with (length names) by (unfold flat_tree; now rewrite map_length).
  apply next_free_ext. intros n. apply has_top_flat.
Qed.

(* ---- documented regression: the count+1 generator collides ---- *)
Lemma count_plus_one_collides :
  (exists ops, ~ no_collision (snd (history gen_build_id [] ops))) /\
  (let d := bs "2024-03-05" in
   let tree := [mkent [bs "2024-03-05.2"] KDir; mkent [bs "attic"] KDir;
                mkent [bs "attic"; bs "2024"] KDir; mkent [bs "attic"; bs "2024"; bs "03"] KDir;
                mkent [bs "attic"; bs "2024"; bs "03"; bs "05.1"] KDir] in
   build_id d (bs "/r") (bs "r") tree = bs "2024-03-05.2" /\
   has_top (build_id d (bs "/r") (bs "r") tree) tree = true /\
   build_id_fixed d (bs "/r") (bs "r") tree = bs "2024-03-05.3").
Proof.
  split.
  - exists [Run (bs "2024-03-05"); Run (bs "2024-03-05");
            Remove [bs "2024-03-05.1"]; Run (bs "2024-03-05")].
    vm_compute. intros H. inversion H as [|? ? _ H1]; subst. inversion H1 as [|? ? _ H2]; subst.
    inversion H2 as [|? ? H3 _]; subst. discriminate.
  - vm_compute. repeat split; reflexivity.
Qed.
