(* LockSrc.v - the statements of util.sh lock_acquire as data, and what they
   mean.  Definitions only.  harness/t_util.py turns the body of lock_acquire
   into a [list lstmt] (gen/Gen_Util.v, lock_acquire_src), one statement per
   line: which file is read into _owner, the tests of the refusal and how they
   are joined, the status returned, what is written where.  [run_lock] is the
   meaning of such a program on the one file the lock consists of;
   Inv/LockTie.v proves that the program read out of util.sh means exactly the
   model NameNewDefs.lock_acquire that the C17 theorems are about. *)
From Robsd Require Export Base.Bytes.
Local Open Scope N_scope.

Inductive lvalue := VOwner | VBuilddir | VRootdir.

Inductive ltest :=
| TNonEmpty (v : lvalue)              (* [ -n V ] *)
| TEmpty (v : lvalue)                 (* [ -z V ] *)
| TNe (a b : lvalue)                  (* [ A != B ] *)
| TEq (a b : lvalue)                  (* [ A = B ] *)
| TAnd (a b : ltest)
| TOr (a b : ltest).

Inductive lstmt :=
| SReadOwner (file : bytes)           (* _owner="$(cat "${_rootdir}/FILE" 2>/dev/null || :)" *)
| SIf (c : ltest) (body : list lstmt) (* if C; then BODY; fi *)
| SInfo                               (* info "...": a message, no state *)
| SReturn (status : N)
| SWriteLine (v : lvalue) (file : bytes).   (* echo V >"${_rootdir}/FILE" *)

(* $(...) drops every trailing newline *)
Fixpoint lk_drop_nl (l : bytes) : bytes :=
  match l with
  | c :: l' => if c =? 10 then lk_drop_nl l' else l
  | [] => []
  end.

Definition lk_cmdsubst (c : bytes) : bytes := rev (lk_drop_nl (rev c)).

(* the state: _owner and the content of <rootdir>/<lockname> (None = no such file) *)
Record lstate := mkls { ls_owner : bytes; ls_file : option bytes }.

Definition lval (root bd : bytes) (s : lstate) (v : lvalue) : bytes :=
  match v with VOwner => ls_owner s | VBuilddir => bd | VRootdir => root end.

Fixpoint ltest_eval (root bd : bytes) (s : lstate) (t : ltest) : bool :=
  match t with
  | TNonEmpty v => match lval root bd s v with [] => false | _ => true end
  | TEmpty v => match lval root bd s v with [] => true | _ => false end
  | TNe a b => negb (beq (lval root bd s a) (lval root bd s b))
  | TEq a b => beq (lval root bd s a) (lval root bd s b)
  | TAnd a b => ltest_eval root bd s a && ltest_eval root bd s b
  | TOr a b => ltest_eval root bd s a || ltest_eval root bd s b
  end.

(* [inl s]: fell through with state s; [inr (status, s)]: returned *)
Fixpoint run_stmts (lockname root bd : bytes) (fuel : nat) (p : list lstmt) (s : lstate)
  : lstate + (N * lstate) :=
  match fuel with
  | O => inr (127, s)
  | S fuel' =>
      match p with
      | [] => inl s
      | st :: p' =>
          match st with
          | SReadOwner f =>
              let c := if beq f lockname then match ls_file s with Some c => c | None => [] end else [] in
              run_stmts lockname root bd fuel' p' (mkls (lk_cmdsubst c) (ls_file s))
          | SIf c body =>
              if ltest_eval root bd s c
              then match run_stmts lockname root bd fuel' body s with
                   | inl s' => run_stmts lockname root bd fuel' p' s'
                   | inr r => inr r
                   end
              else run_stmts lockname root bd fuel' p' s
          | SInfo => run_stmts lockname root bd fuel' p' s
          | SReturn k => inr (k, s)
          | SWriteLine v f =>
              run_stmts lockname root bd fuel' p'
                (if beq f lockname then mkls (ls_owner s) (Some (lval root bd s v ++ [10])) else s)
          end
      end
  end.

Fixpoint ssize (st : lstmt) : nat :=
  match st with
  | SIf _ body => S ((fix go (l : list lstmt) : nat := match l with [] => 1%nat | x :: r => (ssize x + go r)%nat end) body)
  | _ => 1%nat
  end.

Fixpoint lsize (p : list lstmt) : nat :=
  match p with [] => 1%nat | x :: r => (ssize x + lsize r)%nat end.

Definition name_running := [46; 114; 117; 110; 110; 105; 110; 103].   (* .running *)

(* the function: status and the lock file afterwards; falling off the end
   yields the status of the last command, a redirected echo: 0 *)
Definition run_lock (p : list lstmt) (root : bytes) (lock : option bytes) (bd : bytes) : N * option bytes :=
  match run_stmts name_running root bd (S (lsize p)) p (mkls [] lock) with
  | inl s => (0, ls_file s)
  | inr (k, s) => (k, ls_file s)
  end.
