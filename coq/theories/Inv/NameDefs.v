(* NameDefs.v - executable model of the name generators of util.sh.
   Definitions only.  Anchors: util.sh build_id, build_init, log_id; the
   history operations are the entry scripts' "build_id; build_init" (a new
   invocation) and robsd-clean's removal of invocation directories.

   What find(1) sees is a list of entries below a start directory; `wc -l`
   counts newline characters, so a path containing a newline counts more than
   once - written into the model.  The glob "PREFIX*" is a prefix test here:
   the prefixes are a date, or NNN-name.log with a name over the property's
   alphabet (letters, digits, '.', '_', '-', '/'), neither contains a glob
   metacharacter. *)
From Coq Require Import String.
From Robsd Require Export Base.Bytes.
From Coq Require Import Decimal DecimalNat.
Local Open Scope N_scope.

(* ---- decimal rendering, printf %d of a non-negative number ---- *)
Fixpoint uint_bytes (u : Decimal.uint) : bytes :=
  match u with
  | Nil => []
  | D0 u' => 48 :: uint_bytes u'
  | D1 u' => 49 :: uint_bytes u'
  | D2 u' => 50 :: uint_bytes u'
  | D3 u' => 51 :: uint_bytes u'
  | D4 u' => 52 :: uint_bytes u'
  | D5 u' => 53 :: uint_bytes u'
  | D6 u' => 54 :: uint_bytes u'
  | D7 u' => 55 :: uint_bytes u'
  | D8 u' => 56 :: uint_bytes u'
  | D9 u' => 57 :: uint_bytes u'
  end.

Definition dec (n : nat) : bytes := uint_bytes (Nat.to_uint n).

(* printf %03d *)
Definition dec3 (n : nat) : bytes :=
  let d := dec n in
  match length d with
  | 1%nat => 48 :: 48 :: d
  | 2%nat => 48 :: d
  | _ => d
  end.

(* ---- what find sees ---- *)
Inductive ekind := KDir | KFile | KLink | KOther.

Definition ekind_is_dir (k : ekind) : bool := match k with KDir => true | _ => false end.

(* e_path: the components below the start directory, outermost first *)
Record entry := mkent { e_path : list bytes; e_kind : ekind }.

Definition basename (p : list bytes) : bytes := last p [].

Definition nlcount (l : bytes) : nat := length (filter (N.eqb 10) l).

Fixpoint nlcount_path (p : list bytes) : nat :=
  match p with [] => O | c :: p' => (nlcount c + nlcount_path p')%nat end.

(* lines one entry contributes to `find START <test>`: its path is printed on
   1 + (number of newline bytes in it) lines *)
Definition entry_lines (start : bytes) (test : bytes -> ekind -> bool) (e : entry) : nat :=
  if test (basename (e_path e)) (e_kind e)
  then S (nlcount start + nlcount_path (e_path e)) else O.

(* number of lines `find START <test> | wc -l` prints: START itself is tested
   too (under its own last component [start_base], as a directory) *)
Definition find_lines (start start_base : bytes) (test : bytes -> ekind -> bool)
    (tree : list entry) : nat :=
  ((if test start_base KDir then S (nlcount start) else O) +
   list_sum (map (entry_lines start test) tree))%nat.

(* an entry directly below the start directory *)
Definition is_top (name : bytes) (e : entry) : bool :=
  match e_path e with [n] => beq n name | _ => false end.

Definition has_top (name : bytes) (tree : list entry) : bool := existsb (is_top name) tree.

(* ---- build_id:  _d=$(date +%Y-%m-%d);
       _c=$(find "$1" -type d -name "${_d}*" | wc -l);  printf '%s.%d\n' $_d $((_c+1)) *)
Definition date_test (date : bytes) (base : bytes) (k : ekind) : bool :=
  ekind_is_dir k && prefixb date base.

Definition with_suffix (stem : bytes) (k : nat) : bytes := stem ++ 46 :: dec k.

Definition build_id (date start start_base : bytes) (tree : list entry) : bytes :=
  with_suffix date (S (find_lines start start_base (date_test date) tree)).

(* the candidate repair (findings/D10_build_id.diff): start at count+1 and
   step to the next suffix for which no entry exists in the root.  The shell
   loop is unbounded; [fuel] = number of entries + 1 always suffices
   (NameProofs.next_free_is_free) *)
Fixpoint next_free (has : bytes -> bool) (date : bytes) (c : nat) (fuel : nat) : nat :=
  match fuel with
  | O => c
  | S f => if has (with_suffix date c) then next_free has date (S c) f else c
  end.

Definition build_id_fixed (date start start_base : bytes) (tree : list entry) : bytes :=
  with_suffix date
    (next_free (fun n => has_top n tree) date
       (S (find_lines start start_base (date_test date) tree)) (S (length tree))).

(* ---- build_init on the top-level names of the build directory
   ([None]: the directory does not exist yet): creates what is missing, keeps
   everything that is there, reports success either way *)
Definition name_tmp := Eval vm_compute in bs "tmp".
Definition name_robsd_log := Eval vm_compute in bs "robsd.log".
Definition name_step_csv := Eval vm_compute in bs "step.csv".

Definition add_missing (n : bytes) (names : list bytes) : list bytes :=
  if existsb (beq n) names then names else names ++ [n].

Definition build_init (dir : option (list bytes)) : N * list bytes :=
  let names := match dir with Some l => l | None => [] end in
  (0, add_missing name_step_csv (add_missing name_robsd_log (add_missing name_tmp names))).

(* ---- log_id -b builddir -n name -s step ---- *)
(* bash's builtin echo swallows an argument that looks like its options *)
Definition echo_opt_char (c : byte) : bool := (c =? 110) || (c =? 101) || (c =? 69).

Definition echo_arg (s : bytes) : bytes :=
  match s with
  | 45 :: (_ :: _) as rest => if forallb echo_opt_char rest then [] else s
  | _ => s
  end.

(* tr '/' '-' *)
Definition tr_slash (s : bytes) : bytes := map (fun c => if c =? 47 then 45 else c) s.

Definition dot_log := Eval vm_compute in bs ".log".

(* printf '%03d-%s.log' step name *)
Definition log_stem (step : nat) (name : bytes) : bytes :=
  dec3 step ++ 45 :: tr_slash (echo_arg name) ++ dot_log.

Definition stem_test (stem : bytes) (base : bytes) (k : ekind) : bool := prefixb stem base.

Definition log_id (start start_base : bytes) (tree : list entry) (step : nat) (name : bytes) : bytes :=
  let id := log_stem step name in
  let dups := find_lines start start_base (stem_test id) tree in
  match dups with
  | O => id
  | _ => with_suffix id dups
  end.

(* one attempt of a step: step_exec writes the log through `tee NAME`, which
   creates the file in the build directory - or, if an entry of that name is
   already there, truncates it (no new entry); nothing else changes *)
Definition attempt (start start_base : bytes) (tree : list entry) (sn : nat * bytes)
  : bytes * list entry :=
  let id := log_id start start_base tree (fst sn) (snd sn) in
  (id, if has_top id tree then tree else tree ++ [mkent [id] KFile]).

Fixpoint attempts (start start_base : bytes) (tree : list entry) (l : list (nat * bytes))
  : list bytes * list entry :=
  match l with
  | [] => ([], tree)
  | sn :: l' =>
      let '(id, t1) := attempt start start_base tree sn in
      let '(ids, t2) := attempts start start_base t1 l' in
      (id :: ids, t2)
  end.

(* ---- histories of an invocation root: names of the directories in it ----
   (flat: no nested directory matches the date, the root's own name does not) *)
Definition flat_tree (names : list bytes) : list entry := map (fun n => mkent [n] KDir) names.

Inductive op :=
| Run (date : bytes)                 (* a new invocation on that day *)
| Remove (victims : list bytes).     (* cleaning takes these directories away *)

Definition memb (n : bytes) (l : list bytes) : bool := existsb (beq n) l.

(* the state after one operation, and for a Run the generated name together
   with whether a directory of that name was already there *)
Definition op_step (gen : bytes -> list bytes -> bytes) (s : list bytes) (o : op)
  : list bytes * option (bytes * bool) :=
  match o with
  | Run d => let id := gen d s in
             if memb id s then (s, Some (id, true)) else (s ++ [id], Some (id, false))
  | Remove vs => (filter (fun n => negb (memb n vs)) s, None)
  end.

Fixpoint history (gen : bytes -> list bytes -> bytes) (s : list bytes) (ops : list op)
  : list bytes * list (bytes * bool) :=
  match ops with
  | [] => (s, [])
  | o :: ops' =>
      let '(s1, r) := op_step gen s o in
      let '(s2, rs) := history gen s1 ops' in
      (s2, match r with Some x => x :: rs | None => rs end)
  end.

(* build_id on a flat root: the number of names starting with the date, plus one
   (NameProofs.build_id_flat: this is [build_id] on [flat_tree]) *)
Definition gen_build_id (d : bytes) (s : list bytes) : bytes :=
  with_suffix d (S (length (filter (prefixb d) s))).

Definition gen_build_id_fixed (d : bytes) (s : list bytes) : bytes :=
  with_suffix d (next_free (fun n => memb n s) d (S (length (filter (prefixb d) s))) (S (length s))).

(* ---- build_id, third body (findings/D23_build_id_monotone.diff): a loop
   `for _p in "$1/${_d}".<star>` that takes _n="${_p##<star>.}", skips _n when
   it is empty, starts with 0 or holds a byte that is not a digit, keeps the
   largest remaining _n in _c (test -gt), and prints DATE.(_c + 1).
   The glob sees the entries directly below the root, of any kind, whose name
   starts with DATE and a dot; the parameter expansion yields what follows the
   last dot of the name; the numbers are [N] here: the shell's 64-bit
   arithmetic is not modelled, suffixes stay below 2^63 in the correspondence. *)
Fixpoint after_last_dot (s : bytes) (cur : bytes) : bytes :=
  match s with
  | [] => List.rev cur
  | c :: s' => if c =? 46 then after_last_dot s' [] else after_last_dot s' (c :: cur)
  end.

Definition digit_byte (c : byte) : bool := (48 <=? c) && (c <=? 57).

Fixpoint digits_val (acc : N) (ds : bytes) : N :=
  match ds with
  | [] => acc
  | c :: r => digits_val (acc * 10 + (c - 48)) r
  end.

Definition suffix_num (ds : bytes) : option N :=
  match ds with
  | [] => None
  | c :: _ => if c =? 48 then None
              else if forallb digit_byte ds then Some (digits_val 0 ds) else None
  end.

(* the suffix a name contributes to the maximum, if any *)
Definition day_suffix (date : bytes) (name : bytes) : option N :=
  if prefixb (date ++ [46]) name then suffix_num (after_last_dot name []) else None.

Definition max_suffix (date : bytes) (names : list bytes) : N :=
  fold_left (fun m n => match day_suffix date n with Some k => N.max m k | None => m end) names 0.

(* printf %d of a number that is not negative *)
Definition decN (n : N) : bytes := uint_bytes (N.to_uint n).

Definition with_suffixN (stem : bytes) (k : N) : bytes := stem ++ 46 :: decN k.

Definition gen_build_id_max (d : bytes) (s : list bytes) : bytes :=
  with_suffixN d (N.succ (max_suffix d s)).

Definition top_level (tree : list entry) : list bytes :=
  flat_map (fun e => match e_path e with [n] => [n] | _ => [] end) tree.

Definition build_id_max (date start start_base : bytes) (tree : list entry) : bytes :=
  gen_build_id_max date (top_level tree).
