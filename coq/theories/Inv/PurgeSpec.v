(* PurgeSpec.v - what cleaning must do, stated on the tree before and the tree
   after without reference to how robsd-clean works, and the boolean oracle
   applied to the trees the real robsd-clean left behind. *)
From Coq Require Import String.
From Robsd Require Export Inv.PurgeDefs Inv.LsSpec.
Local Open Scope N_scope.

(* an invocation of the root: a non-hidden directory other than the attic *)
Definition invocation (f : fstree) (v : bytes) : Prop :=
  In (mkfs [v] FDir) f /\ hidden v = false /\ v <> name_attic.

(* well-formed tree: one entry per path, no "/" inside a component *)
Definition wf_tree (f : fstree) : Prop :=
  NoDup (map f_path f) /\
  Forall (fun e => Forall (fun c => ~ In 47 c) (f_path e)) f.

(* [l] lists the invocations of [f], newest (largest name) first *)
Definition newest_first (f : fstree) (l : list bytes) : Prop :=
  (forall v, In v l <-> invocation f v) /\ StronglySorted (fun a b => blt b a) l.

(* the invocations retention [n] keeps: the running one, if any, plus the
   newest others, n in total *)
Definition kept_of (inv : list bytes) (running : option bytes) (n : nat) : list bytes :=
  match running with
  | Some r => if memb r inv
              then r :: firstn (n - 1) (filter (fun v => negb (beq v r)) inv)
              else firstn n inv
  | None => firstn n inv
  end.

(* the lock file and the running invocation agree: no lock (or no usable
   first line) and nothing running, or the lock's first line is exactly the
   path robsd-ls prints for the running invocation *)
Definition lock_consistent (rootstr : bytes) (lock : option bytes) (running : option bytes)
    (f : fstree) : Prop :=
  match running with
  | None => running_builddir lock = None
  | Some r => running_builddir lock = Some (mkpath rootstr r) /\ invocation f r
  end.

(* what the property says is preserved of a removed invocation: its report,
   comment, tags, step and stat files, patches and index - by name, written
   down here independently of util.sh (PurgeProofs.whitelist_tie compares) *)
Definition documented_whitelist : list glob := Eval vm_compute in
  [[GStar; GLit (bs ".diff."); GStar]; [GLit (bs "comment")]; [GLit (bs "index.txt")]; [GLit (bs "report")];
   [GLit (bs "stat.csv")]; [GLit (bs "step.csv")]; [GLit (bs "tags")]].

Definition spec_whitelisted (n : bytes) : bool := any_glob documented_whitelist n.

(* an entry is outside everything cleaning may touch *)
Definition outside (vs : list bytes) (p : list bytes) : Prop :=
  under [name_attic] p = false /\ forall v, In v vs -> under [v] p = false.

(* where an entry under the attic may come from when [v] is moved there *)
Definition from_victim (f : fstree) (v : bytes) (e : fsent) : Prop :=
  exists e0 base,
    In e0 f /\ under [v] (f_path e0) = true /\ under [v; name_tmp] (f_path e0) = false /\
    (base = attic_dst v \/ base = attic_dst v ++ [v]) /\
    f_path e = base ++ skipn 1 (f_path e0) /\ f_node e = f_node e0 /\
    (f_path e0 = [v] \/ spec_whitelisted (basename (f_path e0)) = true \/
     (f_node e0 = FDir /\ exists e1, In e1 f /\ strictly_under (f_path e0) (f_path e1) = true /\
                                     spec_whitelisted (basename (f_path e1)) = true)).

Definition created_parent (v : bytes) (e : fsent) : Prop :=
  f_node e = FDir /\ In (f_path e) (attic_parents (attic_dst v)).

(* ---- boolean oracle on (tree before, tree after) ---- *)
Definition node_beq (a b : fnode) : bool :=
  match a, b with
  | FDir, FDir => true
  | FFile x, FFile y => beq x y
  | FLink x, FLink y => beq x y
  | FOther, FOther => true
  | _, _ => false
  end.

Definition ent_beq (a b : fsent) : bool := path_beq (f_path a) (f_path b) && node_beq (f_node a) (f_node b).

Definition ent_in (e : fsent) (f : fstree) : bool := existsb (ent_beq e) f.

Definition invocation_b (f : fstree) (v : bytes) : bool :=
  ent_in (mkfs [v] FDir) f && negb (hidden v) && negb (beq v name_attic).

Definition top_names (f : fstree) : list bytes :=
  flat_map (fun e => match f_path e with [n] => [n] | _ => [] end) f.

(* the invocations newest first, computed with the sort of LsDefs (any sort
   gives the same: LsProofs) *)
Definition invocations_desc (f : fstree) : list bytes :=
  rev (isort (filter (invocation_b f) (top_names f))).

Definition same_tree (f g : fstree) : bool :=
  forallb (fun e => ent_in e g) f && forallb (fun e => ent_in e f) g.

Definition under_any (vs : list bytes) (p : list bytes) : bool :=
  existsb (fun v => under [v] p) vs.

(* [inv]: the invocations of [f], newest first.  WHICH order "newest first" is
   is left to the caller: [spec_ok_clean] below takes name order, the only
   order a tree carries; [spec_ok_clean_age] takes the order of creation from
   whoever knows it *)
Definition spec_ok_clean_on (inv : list bytes) (running : option bytes) (n : nat) (keep_attic : bool)
    (exit : N) (f g : fstree) : bool :=
  (exit =? 0) &&
  match n with
  | O => same_tree f g
  | S _ =>
      let kept := kept_of inv running n in
      let vict := filter (fun v => negb (memb v kept)) inv in
      (* kept set: exactly these invocation directories are still in the root *)
      forallb (fun v => Bool.eqb (invocation_b g v) (memb v kept)) inv &&
      forallb (fun v => memb v inv) (filter (invocation_b g) (top_names g)) &&
      (* removed exactly: nothing of a victim is left *)
      forallb (fun e => negb (under_any vict (f_path e))) g &&
      (* nothing else touched *)
      forallb (fun e => under [name_attic] (f_path e) || under_any vict (f_path e) || ent_in e g) f &&
      forallb (fun e => under [name_attic] (f_path e) || ent_in e f) g &&
      if keep_attic then
        (* what was in the attic is still there (a directory may have been merged into) *)
        forallb (fun e => negb (under [name_attic] (f_path e)) || has_path (f_path e) g) f &&
        (* every victim reappears, with all its whitelisted entries outside tmp *)
        forallb (fun v =>
          (is_dir_at (attic_dst v) g || is_dir_at (attic_dst v ++ [v]) g) &&
          forallb (fun e =>
            negb (under [v] (f_path e)) || under [v; name_tmp] (f_path e) ||
            negb (spec_whitelisted (basename (f_path e))) || path_beq (f_path e) [v] ||
            ent_in (mkfs (attic_dst v ++ skipn 1 (f_path e)) (f_node e)) g ||
            ent_in (mkfs (attic_dst v ++ [v] ++ skipn 1 (f_path e)) (f_node e)) g) f) vict &&
        (* nothing of a victim's tmp arrives *)
        forallb (fun e => ent_in e f ||
                          negb (existsb (fun v => under (attic_dst v ++ [name_tmp]) (f_path e) ||
                                                  under (attic_dst v ++ [v; name_tmp]) (f_path e)) vict)) g &&
        (* and nothing else appears there: new entries are whitelisted names, or
           directories leading to one, or the victims' directories and their parents *)
        forallb (fun e =>
          negb (under [name_attic] (f_path e)) || ent_in e f ||
          spec_whitelisted (basename (f_path e)) ||
          (node_is_dir (f_node e) &&
           (existsb (fun e' => strictly_under (f_path e) (f_path e') && spec_whitelisted (basename (f_path e'))) g ||
            existsb (fun v => under (f_path e) (attic_dst v ++ [v])) vict))) g
      else
        forallb (fun e => negb (under [name_attic] (f_path e)) || ent_in e g) f &&
        forallb (fun e => negb (under [name_attic] (f_path e)) || ent_in e f) g
  end.

Definition spec_ok_clean (running : option bytes) (n : nat) (keep_attic : bool)
    (exit : N) (f g : fstree) : bool :=
  spec_ok_clean_on (invocations_desc f) running n keep_attic exit f g.

(* the property read with "newest" = most recently created: [ages] lists the
   invocations of [f] by age, newest first (the harness knows in which order it
   made them; the C17 history knows in which order they were born) *)
Definition same_names (a b : list bytes) : bool :=
  forallb (fun v => memb v b) a && forallb (fun v => memb v a) b && Nat.eqb (length a) (length b).

Definition spec_ok_clean_age (ages : list bytes) (running : option bytes) (n : nat) (keep_attic : bool)
    (exit : N) (f g : fstree) : bool :=
  same_names ages (invocations_desc f) && spec_ok_clean_on ages running n keep_attic exit f g.

(* [ages] lists the invocations of [f], each once *)
Definition age_list (f : fstree) (ages : list bytes) : Prop :=
  (forall v, In v ages <-> invocation f v) /\ NoDup ages.
