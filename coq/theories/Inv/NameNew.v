(* NameNew.v - lemmas about a new invocation end to end (build_id composed with
   build_init on a tree with contents), the time-of-check window before
   lock_acquire, the build directory under changes from outside, and the
   oracles of Inv/NameSpec.v accepting the model. *)
From Coq Require Import String.
From Robsd Require Export Inv.NameNewDefs Inv.NameSpec.
From Robsd Require Import Inv.NameProofs Inv.NameTie Inv.LsProofs Inv.PurgeSpec Inv.PurgeProofs.
From RobsdGen Require Import Gen_Util.
From Coq Require Import Arith Lia.
Local Open Scope N_scope.
Lemma names_distinct :
  beq name_tmp name_robsd_log = false /\ beq name_tmp name_step_csv = false /\
  beq name_robsd_log name_step_csv = false.
Proof. repeat split; reflexivity. Qed.
Local Opaque name_tmp name_robsd_log name_step_csv.

(* ---- the two views of a tree agree ---- *)
Lemma has_top_view name f : has_top name (view f) = has_path [name] f.
Proof.
  unfold has_top, has_path, view. induction f as [|e f IH]; simpl; [reflexivity|].
  rewrite IH. f_equal. unfold is_top, ent_of. cbn [e_path].
  destruct (f_path e) as [|n [|m p]]; simpl; try reflexivity.
  - now rewrite andb_true_r.
  - now rewrite andb_false_r.
Qed.

Lemma has_path_app p f g : has_path p (f ++ g) = has_path p f || has_path p g.
Proof. unfold has_path. apply existsb_app. Qed.

Lemma is_dir_at_app p f g : is_dir_at p (f ++ g) = is_dir_at p f || is_dir_at p g.
Proof. unfold is_dir_at. apply existsb_app. Qed.

Lemma is_dir_has_path p f : is_dir_at p f = true -> has_path p f = true.
Proof.
  unfold is_dir_at, has_path. rewrite !existsb_exists. intros [e [He Hb]].
  apply andb_true_iff in Hb as [Hb _]. eauto.
Qed.

(* every entry below the top level has its top-level ancestor in the tree *)
Definition rooted (f : fstree) : Prop :=
  forall e a b r, In e f -> f_path e = a :: b :: r -> has_path [a] f = true.

Lemma rooted_nothing_below f id :
  rooted f -> has_path [id] f = false -> forall p, under [id] p = true -> has_path p f = false.
Proof.
  intros Hr Hid p Hu. destruct (has_path p f) eqn:E; [|reflexivity]. exfalso.
  apply has_path_in in E as [e [He Hp]]. apply under_spec in Hu as [r ->]. simpl in Hp.
  destruct r as [|b r]; [|rewrite (Hr e id b r He Hp) in Hid; discriminate].
  assert (H : has_path [id] f = true) by (apply has_path_in; eauto). congruence.
Qed.

(* ---- build_id hands out a name nothing in the tree carries ---- *)
Lemma new_id_fresh d start base f :
  has_path [build_id_current d start base (view f)] f = false.
Proof.
  rewrite <- has_top_view. apply has_top_fresh. apply (proj1 current_fresh).
Qed.

(* ---- one new invocation ---- *)
Lemma fs_build_init_fresh f id :
  rooted f -> has_path [id] f = false -> fs_build_init f id = (0, f ++ fresh_entries id).
Proof.
  intros Hr Hid. pose proof (rooted_nothing_below f id Hr Hid) as Hb.
  assert (Hnd : forall p g, has_path p g = false -> is_dir_at p g = false).
  { intros p g H. destruct (is_dir_at p g) eqn:E; [|reflexivity]. apply is_dir_has_path in E. congruence. }
  assert (Hne : forall a b : bytes, beq a b = false -> path_beq [id; a] [id; b] = false).
  { intros a b H. simpl. now rewrite H, andb_false_r. }
  unfold fs_build_init, fs_mkdir. rewrite (Hnd _ _ Hid), Hid.
  assert (H1 : has_path [id; name_tmp] (f ++ [mkfs [id] FDir]) = false).
  { rewrite has_path_app, Hb by (simpl; now rewrite beq_refl). unfold has_path. simpl. now rewrite beq_refl. }
  rewrite (Hnd _ _ H1), H1. unfold fs_create.
  assert (H2 : has_path [id; name_robsd_log] ((f ++ [mkfs [id] FDir]) ++ [mkfs [id; name_tmp] FDir]) = false).
  { rewrite !has_path_app, Hb by (simpl; now rewrite beq_refl). unfold has_path. simpl.
    rewrite beq_refl, (proj1 names_distinct). reflexivity. }
  rewrite H2.
  assert (H3 : has_path [id; name_step_csv]
                 (((f ++ [mkfs [id] FDir]) ++ [mkfs [id; name_tmp] FDir]) ++ [mkfs [id; name_robsd_log] (FFile [])]) = false).
  { rewrite !has_path_app, Hb by (simpl; now rewrite beq_refl). unfold has_path. simpl.
    rewrite beq_refl, (proj1 (proj2 names_distinct)), (proj2 (proj2 names_distinct)). reflexivity. }
  rewrite H3. unfold fresh_entries. now rewrite <- !app_assoc.
Qed.

Lemma new_invocation_exact d start base f :
  rooted f ->
  let id := build_id_current d start base (view f) in
  new_invocation d start base f = (id, (0, f ++ fresh_entries id)) /\
  has_path [id] f = false /\ (forall e, In e f -> under [id] (f_path e) = false).
Proof.
  intros Hr id. pose proof (new_id_fresh d start base f) as Hid. fold id in Hid.
  split; [|split; [exact Hid|]].
  - unfold new_invocation. fold id. now rewrite fs_build_init_fresh.
  - intros e He. destruct (under [id] (f_path e)) eqn:E; [|reflexivity].
    assert (H : has_path (f_path e) f = true) by (apply has_path_in; eauto).
    rewrite (rooted_nothing_below f id Hr Hid _ E) in H. discriminate.
Qed.

(* whatever the tree looks like: nothing is removed, nothing is modified, and
   what is added is taken from the four entries of a fresh build directory *)
Lemma fs_mkdir_extends p f f' : fs_mkdir p f = Some f' -> f' = f \/ f' = f ++ [mkfs p FDir].
Proof.
  unfold fs_mkdir. destruct (is_dir_at p f); [intros [= <-]; now left|].
  destruct (has_path p f); [discriminate|intros [= <-]; now right].
Qed.

Lemma fs_create_extends p f : fs_create p f = f \/ fs_create p f = f ++ [mkfs p (FFile [])].
Proof. unfold fs_create. destruct (has_path p f); auto. Qed.

Lemma fs_build_init_extends f id :
  exists extra, snd (fs_build_init f id) = f ++ extra /\ incl extra (fresh_entries id).
Proof.
  unfold fs_build_init.
  destruct (fs_mkdir [id] f) as [f1|] eqn:E1; [|exists []; split; [now rewrite app_nil_r|intros ? []]].
  apply fs_mkdir_extends in E1.
  destruct (fs_mkdir [id; name_tmp] f1) as [f2|] eqn:E2.
  - apply fs_mkdir_extends in E2. cbn [snd].
    destruct (fs_create_extends [id; name_robsd_log] f2) as [E3|E3];
    destruct (fs_create_extends [id; name_step_csv] (fs_create [id; name_robsd_log] f2)) as [E4|E4];
    rewrite E4, E3; destruct E2 as [-> | ->]; destruct E1 as [-> | ->]; rewrite <- ?app_assoc;
    eexists; (split; [try reflexivity; symmetry; apply app_nil_r|]);
    unfold fresh_entries; intros x Hx; simpl in *; intuition.
  - cbn [snd]. destruct E1 as [-> | ->]; eexists; (split; [try reflexivity; symmetry; apply app_nil_r|]);
    unfold fresh_entries; intros x Hx; simpl in *; intuition.
Qed.

Lemma new_invocation_preserves d start base f :
  let r := snd (snd (new_invocation d start base f)) in
  (forall e, In e f -> In e r) /\
  exists extra, r = f ++ extra /\ incl extra (fresh_entries (fst (new_invocation d start base f))).
Proof.
  cbv zeta. unfold new_invocation. cbn [fst snd].
  destruct (fs_build_init_extends f (build_id_current d start base (view f))) as [extra [He Hi]].
  split; [|eauto]. intros e Hin. rewrite He. apply in_or_app. now left.
Qed.

(* ---- the build directory of the new invocation is the one log_id starts from ---- *)
Lemma builddir_view_fresh f id :
  (forall e, In e f -> under [id] (f_path e) = false) ->
  builddir_view (f ++ fresh_entries id) id = fresh_builddir.
Proof.
  intros Hno. unfold builddir_view. rewrite flat_map_app.
  assert (H0 : flat_map (fun e => match f_path e with
                     | a :: b :: r => if beq a id then [mkent (b :: r) (kind_of_node (f_node e))] else []
                     | _ => [] end) f = []).
  { induction f as [|e f IH]; [reflexivity|]. simpl. rewrite IH by (intros x Hx; apply Hno; now right).
    specialize (Hno e (or_introl eq_refl)). destruct (f_path e) as [|a [|b r]]; try reflexivity.
    rewrite under_one_cons in Hno. destruct (beq_spec a id) as [->|_]; [|reflexivity].
    rewrite beq_refl in Hno. discriminate. }
  rewrite H0. simpl. rewrite beq_refl. reflexivity.
Qed.

Lemma fresh_builddir_is_build_init :
  map (fun e => basename (e_path e)) fresh_builddir = snd (build_init None) /\
  forall id, map f_path (tl (fresh_entries id)) = map (fun n => [id; n]) (snd (build_init None)).
Proof. split; [reflexivity|intros id; reflexivity]. Qed.

(* ---- histories of runs and cleaning on the tree ---- *)
Lemma rooted_app_fresh f id : rooted f -> rooted (f ++ fresh_entries id).
Proof.
  intros Hr e a b r He Hp. rewrite has_path_app. apply in_app_or in He as [He|He].
  - now rewrite (Hr e a b r He Hp).
  - apply orb_true_iff. right. simpl in He.
    destruct He as [<-|[<-|[<-|[<-|[]]]]]; simpl in Hp; try discriminate; injection Hp as <- _ _;
      unfold has_path; simpl; now rewrite beq_refl.
Qed.

Lemma rooted_remove_tree f v : rooted f -> rooted (remove_tree f v).
Proof.
  intros Hr e a b r He Hp. unfold remove_tree in *. apply filter_In in He as [He Hv].
  pose proof (Hr e a b r He Hp) as Ha. apply has_path_in in Ha as [x [Hx Hxp]].
  apply has_path_in. exists x. split; [|exact Hxp]. apply filter_In. split; [exact Hx|].
  rewrite Hp in Hv. rewrite Hxp. rewrite under_one_cons in *. exact Hv.
Qed.

Lemma rooted_step start base f o : rooted f -> rooted (fs_step start base f o).
Proof.
  intros Hr. destruct o as [d|vs]; cbn [fs_step].
  - destruct (new_invocation_exact d start base f Hr) as [-> _]. cbn [snd]. now apply rooted_app_fresh.
  - revert f Hr. induction vs as [|v vs IH]; intros f Hr; simpl; [exact Hr|]. apply IH. now apply rooted_remove_tree.
Qed.

Lemma rooted_history start base ops : forall f, rooted f -> rooted (fold_left (fs_step start base) ops f).
Proof. induction ops as [|o ops IH]; intros f Hr; simpl; [exact Hr|]. apply IH. now apply rooted_step. Qed.

Lemma new_invocation_after_history start base ops f0 d :
  rooted f0 ->
  let f := fold_left (fs_step start base) ops f0 in
  let id := build_id_current d start base (view f) in
  new_invocation d start base f = (id, (0, f ++ fresh_entries id)) /\
  has_path [id] f = false /\ (forall e, In e f -> under [id] (f_path e) = false) /\
  builddir_view (f ++ fresh_entries id) id = fresh_builddir.
Proof.
  intros Hr f id. pose proof (rooted_history start base ops f0 Hr) as Hrf. fold f in Hrf.
  destruct (new_invocation_exact d start base f Hrf) as [H1 [H2 H3]]. fold id in H1, H2, H3.
  repeat split; auto. now apply builddir_view_fresh.
Qed.

(* ---- NON-CLAIM: the window between build_id and lock_acquire.  Two runs that
   both evaluate build_id before either has created its directory are handed
   the same name; the second build_init takes the directory over and the
   second lock_acquire succeeds, because the lock already names that very
   directory ---- *)
Lemma drop_nl_rev_nonl b : nonl b -> drop_nl (rev (b ++ [10])) = rev b.
Proof.
  intros Hnl. rewrite rev_app_distr. simpl.
  destruct (rev b) as [|c r] eqn:E; [reflexivity|]. simpl.
  destruct (N.eqb_spec c 10) as [->|_]; [|reflexivity]. exfalso.
  assert (Hin : In 10 b) by (apply in_rev; rewrite E; now left).
  unfold nonl in Hnl. rewrite Forall_forall in Hnl. now apply (Hnl 10 Hin).
Qed.

Lemma cmdsubst_written b : nonl b -> cmdsubst (b ++ [10]) = b.
Proof. intros H. unfold cmdsubst. rewrite drop_nl_rev_nonl by exact H. apply rev_involutive. Qed.

Lemma is_dir_at_in p f : In (mkfs p FDir) f -> is_dir_at p f = true.
Proof.
  intros H. unfold is_dir_at. apply existsb_exists. exists (mkfs p FDir). split; [exact H|].
  simpl. now rewrite path_beq_refl.
Qed.

Lemma has_path_in_ent p n f : In (mkfs p n) f -> has_path p f = true.
Proof. intros H. apply has_path_in. exists (mkfs p n). auto. Qed.

Lemma fs_build_init_again f id : fs_build_init (f ++ fresh_entries id) id = (0, f ++ fresh_entries id).
Proof.
  set (g := f ++ fresh_entries id).
  assert (Hin : forall x, In x (fresh_entries id) -> In x g) by (intros x Hx; apply in_or_app; now right).
  unfold fs_build_init, fs_mkdir.
  rewrite (is_dir_at_in [id] g) by (apply Hin; simpl; auto).
  rewrite (is_dir_at_in [id; name_tmp] g) by (apply Hin; simpl; auto).
  unfold fs_create.
  rewrite (has_path_in_ent [id; name_robsd_log] (FFile []) g) by (apply Hin; simpl; auto).
  rewrite (has_path_in_ent [id; name_step_csv] (FFile []) g) by (apply Hin; simpl; auto).
  reflexivity.
Qed.

Lemma lock_acquire_none bd : lock_acquire None bd = (0, Some (bd ++ [10])).
Proof. reflexivity. Qed.

Lemma lock_acquire_own bd : nonl bd -> bd <> [] -> lock_acquire (Some (bd ++ [10])) bd = (0, Some (bd ++ [10])).
Proof.
  intros Hnl Hne. unfold lock_acquire. rewrite cmdsubst_written by exact Hnl.
  destruct bd as [|c t]; [contradiction|]. now rewrite beq_refl.
Qed.

Lemma lock_acquire_other bd bd' :
  nonl bd -> bd <> [] -> bd <> bd' -> lock_acquire (Some (bd ++ [10])) bd' = (1, Some (bd ++ [10])).
Proof.
  intros Hnl Hne Hd. unfold lock_acquire. rewrite cmdsubst_written by exact Hnl.
  destruct bd as [|c t]; [contradiction|]. destruct (beq_spec (c :: t) bd'); [contradiction|reflexivity].
Qed.

Lemma mkpath_nonempty root n : mkpath root n <> [].
Proof. unfold mkpath. destruct root; discriminate. Qed.

Lemma concurrent_same_id d start base rootstr f :
  rooted f ->
  let id := build_id_current d start base (view f) in
  let bd := mkpath rootstr id in
  nonl bd ->
  (* run A *)
  let a_init := fs_build_init f id in
  let a_lock := lock_acquire None bd in
  (* run B computed the same id from the same tree; it now acts on A's tree and lock *)
  let b_init := fs_build_init (snd a_init) id in
  let b_lock := lock_acquire (snd a_lock) bd in
  fst a_init = 0 /\ fst a_lock = 0 /\ fst b_init = 0 /\ fst b_lock = 0 /\
  snd b_init = snd a_init /\ snd b_lock = snd a_lock.
Proof.
  intros Hr id bd Hnl. cbv zeta.
  destruct (new_invocation_exact d start base f Hr) as [_ [Hid _]]. fold id in Hid.
  rewrite (fs_build_init_fresh f id Hr Hid). cbn [fst snd].
  rewrite fs_build_init_again, lock_acquire_none. cbn [fst snd].
  rewrite lock_acquire_own by (auto; apply mkpath_nonempty). cbn [fst snd]. auto 6.
Qed.

(* a run that computes its id after the other has created the directory gets
   another name and is turned away by the lock *)
Lemma sequential_excluded rootstr id1 id2 :
  nonl (mkpath rootstr id1) -> id1 <> id2 ->
  fst (lock_acquire (snd (lock_acquire None (mkpath rootstr id1))) (mkpath rootstr id2)) = 1.
Proof.
  intros Hnl Hne. rewrite lock_acquire_none. cbn [snd].
  rewrite lock_acquire_other; [reflexivity|exact Hnl|apply mkpath_nonempty|].
  intros He. apply mkpath_inj in He. contradiction.
Qed.

(* ---- the build directory under changes from outside ---- *)
Lemma find_lines_app_gen start base test t1 t2 :
  find_lines start base test (t1 ++ t2) =
  (find_lines start base test t1 + list_sum (map (entry_lines start test) t2))%nat.
Proof. unfold find_lines. rewrite map_app, list_sum_app. lia. Qed.

(* an entry may appear anywhere as long as it is not a top-level entry that
   looks like a suffixed log name STEM.log.k *)
Definition ladd_ok (e : entry) : Prop := forall x k, e_path e <> [with_suffix (x ++ dot_log) k].

(* an entry may be deleted (with everything below it) as long as no deleted
   entry's name contains ".log" *)
Definition ldel_ok (p : list bytes) (tree : list entry) : Prop :=
  forall e, In e tree -> under p (e_path e) = true -> infixb dot_log (basename (e_path e)) = false.

Lemma log_inv_add start base tree e :
  log_inv start base tree -> ladd_ok e -> log_inv start base (tree ++ [e]).
Proof.
  intros Hinv Hok x k Ht. rewrite has_top_app in Ht. apply orb_true_iff in Ht as [Ht|Ht].
  - apply Hinv in Ht. rewrite find_lines_app. lia.
  - exfalso. unfold is_top in Ht. destruct (e_path e) as [|n [|m p]] eqn:E; try discriminate.
    apply beq_eq in Ht. subst n. now apply (Hok x k).
Qed.

Lemma ldel_lines start stem p tree :
  (forall e, In e tree -> under p (e_path e) = true -> entry_lines start (stem_test stem) e = 0%nat) ->
  list_sum (map (entry_lines start (stem_test stem)) (ldel p tree)) =
  list_sum (map (entry_lines start (stem_test stem)) tree).
Proof.
  induction tree as [|e tree IH]; intros H; [reflexivity|]. simpl.
  rewrite <- IH by (intros x Hx; apply H; now right).
  destruct (under p (e_path e)) eqn:E; simpl; [|reflexivity].
  now rewrite (H e (or_introl eq_refl) E).
Qed.

Lemma log_inv_del start base tree p :
  log_inv start base tree -> ldel_ok p tree -> log_inv start base (ldel p tree).
Proof.
  intros Hinv Hok x k Ht.
  assert (Hsub : has_top (with_suffix (x ++ dot_log) k) tree = true).
  { apply has_top_in in Ht as [e [He Hp]]. apply filter_In in He as [He _]. apply has_top_in. eauto. }
  apply Hinv in Hsub. unfold find_lines in *. rewrite ldel_lines; [exact Hsub|].
  intros e He Hu. unfold entry_lines, stem_test.
  destruct (prefixb (x ++ dot_log) (basename (e_path e))) eqn:E; [|reflexivity]. exfalso.
  apply prefixb_spec in E as [t Et].
  assert (Hi : infixb dot_log (basename (e_path e)) = true).
  { apply infixb_spec. exists x, t. now rewrite Et, <- app_assoc. }
  rewrite (Hok e He Hu) in Hi. discriminate.
Qed.

Definition lop_ok (tree : list entry) (o : lop) : Prop :=
  match o with
  | LAttempt _ => True
  | LAdd e => ladd_ok e
  | LDel p => ldel_ok p tree
  end.

Fixpoint lguard (start base : bytes) (tree : list entry) (ops : list lop) : Prop :=
  match ops with
  | [] => True
  | o :: ops' => lop_ok tree o /\ lguard start base (lstep start base tree o) ops'
  end.

(* every attempt of the run is handed a name that no entry carries at that moment *)
Fixpoint lfresh (start base : bytes) (tree : list entry) (ops : list lop) : Prop :=
  match ops with
  | [] => True
  | o :: ops' =>
      match o with
      | LAttempt sn => has_top (fst (attempt start base tree sn)) tree = false
      | _ => True
      end /\ lfresh start base (lstep start base tree o) ops'
  end.

Lemma log_inv_step start base tree o :
  log_inv start base tree -> lop_ok tree o -> log_inv start base (lstep start base tree o).
Proof.
  intros Hinv Hok. destruct o as [sn|e|p]; simpl.
  - now apply attempt_inv.
  - destruct (existsb _ tree); [exact Hinv|now apply log_inv_add].
  - now apply log_inv_del.
Qed.

Lemma log_env_fresh start base ops : forall tree,
  log_inv start base tree -> lguard start base tree ops ->
  lfresh start base tree ops /\ log_inv start base (fold_left (lstep start base) ops tree).
Proof.
  induction ops as [|o ops IH]; intros tree Hinv Hg; simpl; [auto|].
  destruct Hg as [Hok Hg]. pose proof (log_inv_step start base tree o Hinv Hok) as Hi.
  destruct (IH _ Hi Hg) as [Hf Hl]. split; [split; [|exact Hf]|exact Hl].
  destruct o; auto. now apply attempt_fresh.
Qed.

(* outside the guard of LDel: two attempts of step 1 "a", the first log is
   deleted, the third attempt is handed the name of the second log, which is
   still there (tee then truncates it).  The same happens when a matching file
   below tmp/ disappears *)
Lemma log_inv_del_refuted :
  exists tree p sn,
    log_inv (bs "/r/d") (bs "d") tree /\ ~ ldel_ok p tree /\
    let tree' := ldel p tree in
    fst (attempt (bs "/r/d") (bs "d") tree' sn) = bs "001-a.log.1" /\
    has_top (fst (attempt (bs "/r/d") (bs "d") tree' sn)) tree' = true /\
    ~ log_inv (bs "/r/d") (bs "d") tree'.
Proof.
  set (t2 := snd (attempts (bs "/r/d") (bs "d") fresh_builddir [(1%nat, bs "a"); (1%nat, bs "a")])).
  exists t2, [bs "001-a.log"], (1%nat, bs "a").
  assert (Hinv : log_inv (bs "/r/d") (bs "d") t2).
  { apply attempts_inv. apply log_inv_fresh_builddir. }
  split; [exact Hinv|]. split; [|split; [|split]].
  - intros H. specialize (H (mkent [bs "001-a.log"] KFile)).
    assert (Hc : infixb dot_log (basename (e_path (mkent [bs "001-a.log"] KFile))) = true) by (vm_compute; reflexivity).
    rewrite H in Hc; [discriminate| |vm_compute; reflexivity].
    vm_compute. right; right; right; now left.
  - vm_compute. reflexivity.
  - vm_compute. reflexivity.
  - intros H. specialize (H (bs "001-a") 1%nat).
    assert (Ht : has_top (with_suffix (bs "001-a" ++ dot_log) 1) (ldel [bs "001-a.log"] t2) = true) by (vm_compute; reflexivity).
    apply H in Ht. vm_compute in Ht. lia.
Qed.

(* ---- the oracles accept what the models produce ---- *)
Lemma named_after_with_suffix d k : named_after d (with_suffix d k) = true.
Proof.
  unfold named_after. rewrite prefixb_with_suffix. unfold with_suffix.
  rewrite Glob.skipn_app_exact. pose proof (dec_nonempty k) as Hne. pose proof (dec_digits k) as Hd.
  destruct (dec k) as [|c r]; [contradiction|]. cbn [andb]. change (forallb is_digit (c :: r) = true).
  apply forallb_forall. intros x Hx. rewrite Forall_forall in Hd. now apply Hd.
Qed.

Lemma spec_ok_build_id_complete d start base tree :
  spec_ok_build_id d tree (build_id_current d start base tree) = true.
Proof.
  unfold spec_ok_build_id.
  rewrite (proj1 (current_above d start base tree)). simpl.
  apply negb_true_iff. apply has_top_fresh. apply (proj1 current_fresh).
Qed.

Lemma dec3_prefix step name t : exists r, log_stem step name ++ t = (dec3 step ++ [45]) ++ r.
Proof. unfold log_stem. eexists. rewrite <- !app_assoc. simpl. reflexivity. Qed.

Lemma spec_ok_log_id_complete start base tree step name :
  log_inv start base tree ->
  spec_ok_log_id tree step name (log_id start base tree step name) = true.
Proof.
  intros Hinv. unfold spec_ok_log_id. apply andb_true_iff. split.
  - apply prefixb_spec. unfold log_id.
    destruct (find_lines start base (stem_test (log_stem step name)) tree) as [|c].
    + destruct (dec3_prefix step name []) as [r Hr]. rewrite app_nil_r in Hr. eauto.
    + unfold with_suffix. apply dec3_prefix.
  - apply negb_true_iff. exact (attempt_fresh start base tree (step, name) Hinv).
Qed.
