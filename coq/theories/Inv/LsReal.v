(* LsReal.v - what the listing is in terms of what the entries REALLY are.  The
   code looks at d_type as readdir(3) delivers it and never calls stat(2): a
   file system that answers DT_UNKNOWN (allowed by readdir(3); NFS and some
   FUSE file systems do) makes every directory invisible to robsd-ls, hence to
   robsd-clean, the previous-release lookup and the report.  Also: the -B
   clause for the reading "the directory the lock file denotes", as an exact
   characterisation (general, not one witness), and the failure branch of the
   stdout oracle. *)
From Robsd Require Export Inv.LsSpec.
From Robsd Require Import Inv.LsProofs Base.Sort.
Local Open Scope N_scope.

(* [real name]: the kind of the entry as lstat(2) would report it *)
Definition faithful (real : bytes -> dtype) (ents : list dirent) : Prop :=
  forall de, In de ents -> d_type de = real (d_name de).

Lemma exact_set_real sortf root keepdir lock ents real p :
  sorts sortf -> faithful real ents ->
  (In p (ls sortf root keepdir false lock ents) <->
   exists de, In de ents /\ real (d_name de) = DT_DIR /\ hidden (d_name de) = false /\
              mkpath root (d_name de) <> keepdir /\ p = mkpath root (d_name de)).
Proof.
  intros Hs Hf. rewrite (exact_set sortf root keepdir lock ents p Hs). split.
  - intros [de [Hin [Ht H]]]. exists de. split; [exact Hin|]. rewrite <- (Hf de Hin). auto.
  - intros [de [Hin [Ht H]]]. exists de. split; [exact Hin|]. rewrite (Hf de Hin). auto.
Qed.

(* without faithfulness: a real directory reported as DT_UNKNOWN is not listed *)
Lemma unknown_directory_not_listed sortf root keepdir skipB lock ents real de :
  sorts sortf -> distinct_names ents -> In de ents ->
  real (d_name de) = DT_DIR -> d_type de = DT_UNKNOWN ->
  ~ In (mkpath root (d_name de)) (ls sortf root keepdir skipB lock ents).
Proof.
  intros Hs Hn Hin _ Hu. apply never_listed; auto. left. rewrite Hu. discriminate.
Qed.

(* a file system that never fills in d_type: nothing at all is listed *)
Lemma sorts_nil sortf : sorts sortf -> sortf [] = [].
Proof. intros Hs. destruct (Hs []) as [Hp _]. now apply Permutation_nil in Hp. Qed.

Lemma all_unknown_lists_nothing sortf root keepdir skipB lock ents :
  sorts sortf -> (forall de, In de ents -> d_type de = DT_UNKNOWN) ->
  ls sortf root keepdir skipB lock ents = [] /\
  ls_main sortf root keepdir skipB lock (Some ents) = (0, []).
Proof.
  intros Hs Hu.
  assert (Hr : invocation_read root keepdir ents = []).
  { unfold invocation_read. induction ents as [|de ents IH]; [reflexivity|]. simpl.
    unfold accepted at 1, match_directory. rewrite (Hu de (or_introl eq_refl)). simpl. rewrite andb_false_r.
    apply IH. intros x Hx. apply Hu. now right. }
  assert (Hl : ls sortf root keepdir skipB lock ents = []).
  { unfold ls, invocation_find_all. rewrite Hr, (sorts_nil sortf Hs). reflexivity. }
  split; [exact Hl|]. unfold ls_main. now rewrite Hl.
Qed.

Lemma dt_unknown_refuted :
  exists root keepdir ents real,
    (forall de, In de ents -> real (d_name de) = DT_DIR /\ hidden (d_name de) = false /\ mkpath root (d_name de) <> keepdir) /\
    ents <> [] /\ ls_exec root keepdir false None ents = [].
Proof.
  exists [47; 114], [47; 114; 47; 97; 116; 116; 105; 99], [mkde [97] DT_UNKNOWN; mkde [98] DT_UNKNOWN], (fun _ => DT_DIR).
  split; [|split; [discriminate|reflexivity]].
  intros de [<-|[<-|[]]]; repeat split; discriminate.
Qed.

(* ---- -B and the directory the lock file denotes ---- *)
(* a qualifying directory [name] is left out by -B exactly when the lock's
   first line is, byte for byte, the path robsd-ls prints for it *)
Lemma B_omits_iff sortf root keepdir lock ents name :
  sorts sortf -> In (mkde name DT_DIR) ents -> hidden name = false -> mkpath root name <> keepdir ->
  (In (mkpath root name) (ls sortf root keepdir true lock ents) <->
   running_builddir lock <> Some (mkpath root name)).
Proof.
  intros Hs Hin Hh Hk. unfold ls. rewrite (ls_in_bd sortf Hs). unfold listed. split.
  - intros [de [_ [_ [_ Hb]]]]. exact Hb.
  - intros Hb. exists (mkde name DT_DIR). split; [exact Hin|]. split; [|split; [reflexivity|exact Hb]].
    split; [reflexivity|]. split; [now apply hidden_false_iff|exact Hk].
Qed.

(* hence: any other spelling [b] of that directory in the lock file - an extra
   slash, a trailing slash, the readlink -f path of a root configured through
   a symlink or with a trailing slash - leaves it in the -B listing *)
Lemma respelled_still_listed sortf root keepdir lock ents name b :
  sorts sortf -> In (mkde name DT_DIR) ents -> hidden name = false -> mkpath root name <> keepdir ->
  running_builddir lock = Some b -> b <> mkpath root name ->
  In (mkpath root name) (ls sortf root keepdir true lock ents).
Proof.
  intros Hs Hin Hh Hk Hb Hne. apply B_omits_iff; auto. rewrite Hb. intros [= E]. contradiction.
Qed.

(* the intended reading holds under the exact guard "the lock spells the path
   the way robsd-ls prints it": then -B leaves out that directory and nothing else *)
Lemma B_omits_denoted_partial sortf root keepdir lock ents name :
  sorts sortf -> distinct_names ents ->
  running_builddir lock = Some (mkpath root name) ->
  forall p, In p (ls sortf root keepdir true lock ents) <->
            In p (ls sortf root keepdir false lock ents) /\ p <> mkpath root name.
Proof.
  intros Hs Hn Hb p.
  destruct (B_omits_exactly sortf root keepdir lock ents Hs Hn) as [H _]. cbv zeta in H.
  rewrite H, Hb. split; intros [H1 H2]; split; auto; intros E; apply H2; congruence.
Qed.

(* ---- exit status and stdout, both branches ---- *)
Lemma ls_main_accepted sortf root keepdir (skipB : bool) lock readdir :
  sorts sortf ->
  match readdir with
  | Some ents => distinct_names ents /\ nonl root /\ Forall (fun de => nonl (d_name de)) ents
  | None => True
  end ->
  spec_ok_stdout root keepdir skipB lock readdir
    (fst (ls_main sortf root keepdir skipB lock readdir))
    (snd (ls_main sortf root keepdir skipB lock readdir)) = true.
Proof.
  intros Hs H. destruct readdir as [ents|].
  - destruct H as [Hn [Hr He]].
    apply (stdout_oracle_exact sortf root keepdir skipB lock ents _ _ Hs Hn Hr He).
    now destruct (ls_main sortf root keepdir skipB lock (Some ents)).
  - reflexivity.
Qed.

Lemma stdout_failure_branch root keepdir skipB lock exit out :
  spec_ok_stdout root keepdir skipB lock None exit out = true <-> exit <> 0 /\ out = [].
Proof.
  unfold spec_ok_stdout, spec_ok_stdout_named. rewrite andb_true_iff, negb_true_iff, N.eqb_neq, beq_eq. tauto.
Qed.
