(* NameSpec.v - what "never reuses a name" means, independent of how the names
   are computed, and the oracles applied to the names util.sh generated. *)
From Robsd Require Export Inv.NameDefs.
Local Open Scope N_scope.

(* a name is fresh in a directory when no entry of any kind carries it *)
Definition fresh_in (name : bytes) (tree : list entry) : Prop :=
  forall e, In e tree -> e_path e <> [name].

(* no run of the history was handed a name that was already in the root *)
Definition no_collision (rs : list (bytes * bool)) : Prop := Forall (fun r => snd r = false) rs.

(* log files: entries named STEM.k exist only for k below the number of
   entries matching STEM*, for every STEM ending in ".log" *)
Definition log_inv (start start_base : bytes) (tree : list entry) : Prop :=
  forall x k, has_top (with_suffix (x ++ dot_log) k) tree = true ->
              (k < find_lines start start_base (stem_test (x ++ dot_log)) tree)%nat.

(* every attempt of a sequence gets a name that is fresh when it is made *)
Fixpoint fresh_trace (start start_base : bytes) (tree : list entry) (l : list (nat * bytes)) : Prop :=
  match l with
  | [] => True
  | sn :: l' =>
      has_top (fst (attempt start start_base tree sn)) tree = false /\
      fresh_trace start start_base (snd (attempt start start_base tree sn)) l'
  end.

(* ---- oracles on what the implementation produced ---- *)
Definition is_digit (c : byte) : bool := (48 <=? c) && (c <=? 57).

(* DATE.<digits> *)
Definition named_after (date out : bytes) : bool :=
  prefixb date out &&
  match skipn (length date) out with
  | 46 :: (_ :: _) as ds => forallb is_digit ds
  | _ => false
  end.

(* build_id printed [out] for a root that held [tree] *)
Definition spec_ok_build_id (date : bytes) (tree : list entry) (out : bytes) : bool :=
  named_after date out && negb (has_top out tree).

(* log_id printed [out] for a build directory that held [tree] *)
Definition spec_ok_log_id (tree : list entry) (step : nat) (name : bytes) (out : bytes) : bool :=
  prefixb (dec3 step ++ [45]) out && negb (has_top out tree).

(* the top-level names of a directory before and after an operation that may
   only add: everything that was there is still there *)
Definition spec_ok_kept (before after : list bytes) : bool :=
  forallb (fun n => memb n after) before.
