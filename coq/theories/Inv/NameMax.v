(* NameMax.v - lemmas about the third body of build_id (largest suffix in use
   today plus one, findings/D23_build_id_monotone.diff): decimal rendering of
   an [N] and its inverse, freshness in every root and history, and the order
   of the generated names under the byte-wise comparison robsd-ls uses. *)
From Coq Require Import String.
From Robsd Require Export Inv.NameSpec.
From Robsd Require Import Inv.NameProofs Inv.LsSpec Inv.LsProofs.
From Coq Require Import Decimal DecimalFacts DecimalN Arith.
Local Open Scope N_scope.

(* ---- reading a decimal string ---- *)
Lemma digits_val_acc u : forall acc,
  N.pos (Pos.of_uint_acc u acc) = digits_val (N.pos acc) (uint_bytes u).
Proof.
  induction u as [|u IH|u IH|u IH|u IH|u IH|u IH|u IH|u IH|u IH|u IH]; intros acc;
    cbn [Pos.of_uint_acc uint_bytes digits_val]; [reflexivity|..];
    rewrite IH; f_equal; lia.
Qed.

Lemma digits_val_uint u : digits_val 0 (uint_bytes u) = N.of_uint u.
Proof.
  unfold N.of_uint.
  induction u as [|u IH|u IH|u IH|u IH|u IH|u IH|u IH|u IH|u IH|u IH];
    cbn [Pos.of_uint uint_bytes digits_val]; [reflexivity|exact IH|..];
    now rewrite digits_val_acc.
Qed.

Lemma decN_val n : digits_val 0 (decN n) = n.
Proof. unfold decN. rewrite digits_val_uint. apply Unsigned.of_to. Qed.

Lemma uint_bytes_digit_bytes u : forallb digit_byte (uint_bytes u) = true.
Proof. induction u; simpl; auto. Qed.

Lemma decN_digits n : forallb digit_byte (decN n) = true.
Proof. apply uint_bytes_digit_bytes. Qed.

Lemma decN_no c n : digit_byte c = false -> ~ In c (decN n).
Proof.
  intros Hc Hin. pose proof (decN_digits n) as H. rewrite forallb_forall in H.
  rewrite (H _ Hin) in Hc. discriminate.
Qed.

Lemma decN_no_dot n : ~ In 46 (decN n).
Proof. now apply decN_no. Qed.

Lemma nzhead_no_D0 u : forall v, nzhead u <> D0 v.
Proof. induction u; intros v; simpl; try discriminate. apply IHu. Qed.

Lemma to_uint_unorm n : unorm (N.to_uint n) = N.to_uint n.
Proof. rewrite <- Unsigned.to_of. now rewrite Unsigned.of_to. Qed.

(* no leading zero, except for zero itself *)
Lemma decN_head n : n <> 0 -> exists c r, decN n = c :: r /\ c <> 48.
Proof.
  intros Hn. unfold decN. pose proof (to_uint_unorm n) as Hu.
  destruct (N.to_uint n) as [|v|v|v|v|v|v|v|v|v|v] eqn:E; simpl;
    try (eexists; eexists; split; [reflexivity|discriminate]).
  - exfalso. vm_compute in Hu. discriminate.
  - exfalso. unfold unorm in Hu. rewrite nzhead_D0 in Hu.
    destruct (nzhead v) eqn:Ev; try (rewrite <- Ev in Hu; exact (nzhead_no_D0 v _ Hu)).
    injection Hu as <-. apply Hn. rewrite <- (Unsigned.of_to n), E. reflexivity.
Qed.

Lemma suffix_num_decN n : n <> 0 -> suffix_num (decN n) = Some n.
Proof.
  intros Hn. destruct (decN_head n Hn) as [c [r [E Hc]]]. unfold suffix_num. rewrite E.
  apply N.eqb_neq in Hc. rewrite Hc. rewrite <- E, decN_digits, decN_val. reflexivity.
Qed.

(* ---- the part after the last dot ---- *)
Lemma after_last_dot_nodot ds : forall cur, ~ In 46 ds -> after_last_dot ds cur = List.rev cur ++ ds.
Proof.
  induction ds as [|c ds IH]; intros cur H; simpl; [now rewrite List.app_nil_r|].
  destruct (N.eqb_spec c 46) as [->|_]; [exfalso; apply H; now left|].
  rewrite IH by (intros Hin; apply H; now right). simpl. now rewrite <- app_assoc.
Qed.

Lemma after_last_dot_app x ds : forall cur, ~ In 46 ds -> after_last_dot (x ++ 46 :: ds) cur = ds.
Proof.
  induction x as [|c x IH]; intros cur H; simpl.
  - now rewrite after_last_dot_nodot.
  - destruct (c =? 46); now apply IH.
Qed.

Lemma prefixb_app a b : prefixb a (a ++ b) = true.
Proof. apply prefixb_spec. now exists b. Qed.

Lemma prefix_day d ds : prefixb (d ++ [46]) (d ++ 46 :: ds) = true.
Proof. apply prefixb_spec. exists ds. now rewrite <- app_assoc. Qed.

Lemma day_suffix_own d k : k <> 0 -> day_suffix d (with_suffixN d k) = Some k.
Proof.
  intros Hk. unfold day_suffix, with_suffixN. rewrite prefix_day.
  rewrite after_last_dot_app by apply decN_no_dot. now apply suffix_num_decN.
Qed.

(* ---- the maximum ---- *)
Definition max_step (d : bytes) (m : N) (n : bytes) : N :=
  match day_suffix d n with Some k => N.max m k | None => m end.

Lemma max_fold_ge d names : forall m, m <= fold_left (max_step d) names m.
Proof.
  induction names as [|n names IH]; intros m; simpl; [lia|].
  specialize (IH (max_step d m n)). unfold max_step in *. destruct (day_suffix d n); lia.
Qed.

Lemma max_fold_in d names : forall m n k,
  In n names -> day_suffix d n = Some k -> k <= fold_left (max_step d) names m.
Proof.
  induction names as [|x names IH]; intros m n k [] Hk.
  - subst x. simpl. pose proof (max_fold_ge d names (max_step d m n)) as H.
    assert (Hs : k <= max_step d m n) by (unfold max_step; rewrite Hk; lia). lia.
  - simpl. eapply IH; eassumption.
Qed.

Lemma max_suffix_in d names n k : In n names -> day_suffix d n = Some k -> k <= max_suffix d names.
Proof. apply max_fold_in. Qed.

(* the maximum is 0 or the suffix of one of the names *)
Lemma max_fold_attained d names : forall m,
  fold_left (max_step d) names m = m \/
  exists n, In n names /\ day_suffix d n = Some (fold_left (max_step d) names m).
Proof.
  induction names as [|x names IH]; intros m; simpl; [now left|].
  destruct (IH (max_step d m x)) as [E|[n [Hn Hk]]].
  - rewrite E. unfold max_step. destruct (day_suffix d x) as [k|] eqn:Ek; [|now left].
    destruct (N.max_spec m k) as [[_ ->]|[_ ->]]; [|now left].
    right. exists x. split; [now left|exact Ek].
  - right. exists n. split; [now right|exact Hk].
Qed.

Lemma max_suffix_attained d names :
  max_suffix d names = 0 \/ exists n, In n names /\ day_suffix d n = Some (max_suffix d names).
Proof. apply max_fold_attained. Qed.

(* ---- freshness ---- *)
Lemma max_flat_fresh d s : ~ In (gen_build_id_max d s) s.
Proof.
  intros Hin. unfold gen_build_id_max in Hin.
  assert (Hk : N.succ (max_suffix d s) <> 0) by lia.
  pose proof (max_suffix_in d s _ _ Hin (day_suffix_own d _ Hk)). lia.
Qed.

Lemma has_top_top_level name tree : has_top name tree = true <-> In name (top_level tree).
Proof.
  unfold top_level. rewrite has_top_in, in_flat_map. split.
  - intros [e [He Hp]]. exists e. split; [exact He|]. rewrite Hp. now left.
  - intros [e [He Hp]]. exists e. split; [exact He|].
    destruct (e_path e) as [|n [|m p]]; simpl in Hp; try contradiction.
    destruct Hp as [->|[]]. reflexivity.
Qed.

Lemma max_tree_fresh d start base tree : has_top (build_id_max d start base tree) tree = false.
Proof.
  destruct (has_top _ tree) eqn:E; [|reflexivity]. exfalso.
  apply has_top_top_level in E. exact (max_flat_fresh d _ E).
Qed.

Lemma max_history_no_collision ops : forall s,
  no_collision (snd (history gen_build_id_max s ops)).
Proof.
  induction ops as [|o ops IH]; intros s; [constructor|].
  rewrite history_cons. simpl. destruct o as [d|vs]; simpl.
  - pose proof (max_flat_fresh d s) as Hf. apply memb_false in Hf. rewrite Hf. simpl.
    constructor; [reflexivity|apply IH].
  - apply IH.
Qed.

Lemma top_level_flat names : top_level (flat_tree names) = names.
Proof. unfold top_level, flat_tree. induction names as [|n names IH]; simpl; [reflexivity|now rewrite IH]. Qed.

Lemma build_id_max_flat d start base names :
  build_id_max d start base (flat_tree names) = gen_build_id_max d names.
Proof. unfold build_id_max. now rewrite top_level_flat. Qed.

(* ---- the shape of the name ---- *)
Lemma digit_byte_is_digit c : digit_byte c = is_digit c.
Proof. reflexivity. Qed.

Lemma named_after_with_suffixN d k : named_after d (with_suffixN d k) = true.
Proof.
  unfold named_after, with_suffixN. rewrite prefixb_app. simpl.
  assert (Hs : skipn (length d) (d ++ 46 :: decN k) = 46 :: decN k).
  { induction d as [|c d IH]; [reflexivity|exact IH]. }
  rewrite Hs. pose proof (decN_digits k) as Hd.
  destruct (decN k) as [|c r] eqn:E.
  - exfalso. assert (H : digits_val 0 (decN k) = k) by apply decN_val. rewrite E in H. simpl in H. subst k.
    vm_compute in E. discriminate.
  - exact Hd.
Qed.

Lemma max_named_after d start base tree : named_after d (build_id_max d start base tree) = true.
Proof. apply named_after_with_suffixN. Qed.

(* every suffix in use today lies below the new one *)
Lemma max_above_all d s n k :
  In n s -> day_suffix d n = Some k -> k < N.succ (max_suffix d s).
Proof. intros Hin Hk. pose proof (max_suffix_in d s n k Hin Hk). lia. Qed.

(* ---- one decimal digit: name order is numeric order ---- *)
Lemma decN_small k : k < 10 -> decN k = [48 + k].
Proof.
  intros H. destruct k as [|p]; [reflexivity|].
  do 4 (destruct p as [p|p|]; try reflexivity; try lia).
Qed.

Lemma blt_app_head a : forall b c, blt b c -> blt (a ++ b) (a ++ c).
Proof. induction a as [|x a IH]; intros b c H; simpl; [exact H|]. apply blt_tail. now apply IH. Qed.

Lemma blt_app_head_inv a : forall b c, blt (a ++ b) (a ++ c) -> blt b c.
Proof.
  induction a as [|x a IH]; intros b c H; simpl in H; [exact H|].
  inversion H; subst; [lia|]. now apply IH.
Qed.

Lemma with_suffixN_lt d j k : j < k -> k < 10 -> blt (with_suffixN d j) (with_suffixN d k).
Proof.
  intros Hjk Hk. unfold with_suffixN. apply blt_app_head. apply blt_tail.
  rewrite !decN_small by lia. apply blt_head. lia.
Qed.

Lemma blt_cons_same x a b : blt (x :: a) (x :: b) -> blt a b.
Proof. intros H. inversion H; subst; [lia|assumption]. Qed.

Lemma blt_single x y : blt [x] [y] -> x < y.
Proof. intros H. inversion H as [|? ? ? ? Hlt|? ? ? Hb]; subst; [exact Hlt|inversion Hb]. Qed.

Lemma with_suffixN_lt_iff d j k : j < 10 -> k < 10 -> (blt (with_suffixN d j) (with_suffixN d k) <-> j < k).
Proof.
  intros Hj Hk. split; [|intros; now apply with_suffixN_lt].
  unfold with_suffixN. intros H. apply blt_app_head_inv, blt_cons_same in H.
  rewrite !decN_small in H by lia. apply blt_single in H. lia.
Qed.

(* the tenth name sorts below the ninth: beyond one digit name order is not numeric order *)
Lemma tenth_below_ninth d : blt (with_suffixN d 10) (with_suffixN d 9).
Proof.
  unfold with_suffixN. apply blt_app_head. apply blt_tail. vm_compute. apply blt_head. lia.
Qed.

Lemma with_suffixN_inj d j k : with_suffixN d j = with_suffixN d k -> j = k.
Proof.
  unfold with_suffixN. intros H. apply app_inv_head in H. injection H as H.
  rewrite <- (decN_val j), <- (decN_val k). now rewrite H.
Qed.

(* a name of an earlier day sorts below every name of this day *)
Lemma blt_prefix_ext a : forall v r, blt v a -> blt v (a ++ r).
Proof.
  induction a as [|x a IH]; intros v r H; [inversion H|].
  inversion H; subst; simpl; [constructor|now constructor|]. apply blt_tail. now apply IH.
Qed.

Lemma older_below_today d v k : blt v (d ++ [46]) -> blt v (with_suffixN d k).
Proof.
  intros H. unfold with_suffixN.
  replace (d ++ 46 :: decN k) with ((d ++ [46]) ++ decN k) by now rewrite <- app_assoc.
  now apply blt_prefix_ext.
Qed.
