(* PurgeComplete.v - the data-preservation half of cleaning: every entry of a
   removed invocation that is on the whitelist and outside tmp ARRIVES in the
   attic with its content, at one destination per invocation (attic/Y/M/D.X, or
   attic/Y/M/D.X/<name> when that directory was already there).  First for one
   invocation (purge_one_complete), then over the whole fold under the guard
   that the attic destinations of the removed invocations do not lie inside each
   other (always the case for names of the form Y-M-D.X, attic_dst_date). *)
From Coq Require Import String.
From Robsd Require Export Inv.PurgeSpec.
From Robsd Require Import Inv.LsProofs Inv.NameProofs Inv.PurgeProofs Base.Sort.
From Coq Require Import Arith Lia.
Local Open Scope N_scope.

Lemma name_attic_val : name_attic = [97; 116; 116; 105; 99].
Proof. reflexivity. Qed.
Lemma name_tmp_val : name_tmp = [116; 109; 112].
Proof. reflexivity. Qed.
Lemma attic_ne_tmp : name_attic <> name_tmp.
Proof. discriminate. Qed.
Lemma attic_no_slash : ~ In 47 name_attic.
Proof. rewrite name_attic_val. simpl. intuition discriminate. Qed.
Lemma attic_no_dash : ~ In 45 name_attic.
Proof. rewrite name_attic_val. simpl. intuition discriminate. Qed.
Lemma tmp_no_dash : ~ In 45 name_tmp.
Proof. rewrite name_tmp_val. simpl. intuition discriminate. Qed.

Local Opaque name_attic name_tmp.

(* ---- the pieces of purge_one, named ---- *)
Definition f1_of (f : fstree) (v : bytes) : fstree :=
  filter (fun e => negb (under [v; name_tmp] (f_path e))) f.
Definition sub_of (f : fstree) (v : bytes) : fstree :=
  filter (fun e => under [v] (f_path e)) (f1_of f v).
Definition surv_of (f : fstree) (v : bytes) : fstree :=
  filter (fun e => path_beq (f_path e) [v] || survives (sub_of f v) e) (sub_of f v).
Definition f2_of (f : fstree) (v : bytes) : fstree :=
  mkdir_all (attic_parents (attic_dst v)) (f1_of f v).

(* where cp -pr puts the invocation: the destination itself, or - when that is
   an existing directory - a directory of the invocation's name inside it *)
Definition purge_base (f : fstree) (v : bytes) : list bytes :=
  if is_dir_at (attic_dst v) (f2_of f v) then attic_dst v ++ [v] else attic_dst v.

Definition copy_to (base : list bytes) (e : fsent) : fsent :=
  mkfs (base ++ skipn 1 (f_path e)) (f_node e).

Lemma purge_one_eq f v :
  purge_one f v =
  filter (fun e => negb (under [v] (f_path e)))
    (fold_left put (map (copy_to (purge_base f v)) (surv_of f v)) (f2_of f v)).
Proof. reflexivity. Qed.

Lemma purge_base_cases f v : purge_base f v = attic_dst v \/ purge_base f v = attic_dst v ++ [v].
Proof. unfold purge_base. destruct (is_dir_at _ _); auto. Qed.

Lemma purge_base_under f v : under (attic_dst v) (purge_base f v) = true.
Proof. destruct (purge_base_cases f v) as [-> | ->]; [apply under_refl|apply under_app]. Qed.

(* ---- put, in order ---- *)
Lemma fold_put_last xs : forall f x,
  In x xs -> NoDup (map f_path xs) -> In x (fold_left put xs f).
Proof.
  induction xs as [|a xs IH]; intros f x Hin Hnd; [destruct Hin|].
  simpl in Hnd. inversion Hnd as [|? ? Ha Hnd']; subst. simpl.
  destruct Hin as [->|Hin]; [|now apply IH].
  apply fold_put_keeps; [apply put_in; now right|].
  intros y Hy Heq. apply Ha. rewrite <- Heq. now apply in_map.
Qed.

Lemma nodup_paths_filter (g : fsent -> bool) f :
  NoDup (map f_path f) -> NoDup (map f_path (filter g f)).
Proof. apply NoDup_map_filter. Qed.

Lemma copy_paths_nodup base v l :
  NoDup (map f_path l) -> (forall e, In e l -> under [v] (f_path e) = true) ->
  NoDup (map f_path (map (copy_to base) l)).
Proof.
  induction l as [|e l IH]; intros Hnd Hu; simpl; [constructor|].
  simpl in Hnd. inversion Hnd as [|? ? He Hnd']; subst. constructor.
  - intros Hin. apply in_map_iff in Hin as [x [Hx Hin]]. apply in_map_iff in Hin as [y [<- Hy]].
    simpl in Hx. apply app_inv_head in Hx.
    assert (Hye : under [v] (f_path y) = true) by (apply Hu; now right).
    assert (Hee : under [v] (f_path e) = true) by (apply Hu; now left).
    apply He. apply in_map_iff. exists y. split; [|exact Hy].
    destruct (f_path y) as [|a p]; [discriminate|]. destruct (f_path e) as [|b q]; [discriminate|].
    rewrite under_one_cons in Hye, Hee. apply beq_eq in Hye, Hee. subst a b. simpl in Hx. now subst.
  - apply IH; [exact Hnd'|]. intros x Hx. apply Hu. now right.
Qed.

Lemma base_not_under_victim f v : v <> name_attic -> forall r, under [v] (purge_base f v ++ r) = false.
Proof.
  intros Hne r. destruct (attic_dst_under v) as [t Ht].
  destruct (purge_base_cases f v) as [-> | ->]; rewrite Ht; cbn [app]; rewrite under_one_cons;
    (destruct (beq_spec v name_attic); [contradiction|reflexivity]).
Qed.

(* ---- one invocation: what is whitelisted and outside tmp arrives ---- *)
Lemma purge_one_complete f v e0 :
  wf_tree f -> v <> name_attic ->
  In e0 f -> under [v] (f_path e0) = true -> under [v; name_tmp] (f_path e0) = false ->
  (f_path e0 = [v] \/ whitelisted (basename (f_path e0)) = true) ->
  In (copy_to (purge_base f v) e0) (purge_one f v).
Proof.
  intros [Hnd _] Hne Hin Hu Ht Hw. rewrite purge_one_eq.
  assert (H1 : In e0 (f1_of f v)) by (apply filter_In; split; [exact Hin|now rewrite Ht]).
  assert (H2 : In e0 (sub_of f v)) by (apply filter_In; split; assumption).
  assert (H3 : In e0 (surv_of f v)).
  { apply filter_In. split; [exact H2|]. apply orb_true_iff. destruct Hw as [Hw|Hw].
    - left. now apply path_beq_eq.
    - right. unfold survives. now rewrite Hw. }
  apply filter_In. split.
  - apply fold_put_last; [now apply in_map|].
    apply (copy_paths_nodup _ v).
    + unfold surv_of, sub_of, f1_of. now repeat apply nodup_paths_filter.
    + intros e He. apply filter_In in He as [He _]. now apply filter_In in He as [_ He].
  - cbn [copy_to f_path]. now rewrite base_not_under_victim.
Qed.

(* ---- where new attic entries come from, with the destination exact ---- *)
Definition from_victim_at (base : list bytes) (f : fstree) (v : bytes) (e : fsent) : Prop :=
  exists e0,
    In e0 f /\ under [v] (f_path e0) = true /\ under [v; name_tmp] (f_path e0) = false /\
    e = copy_to base e0 /\
    (f_path e0 = [v] \/ spec_whitelisted (basename (f_path e0)) = true \/
     (f_node e0 = FDir /\
      exists e1, In e1 f /\ under [v] (f_path e1) = true /\ under [v; name_tmp] (f_path e1) = false /\
                 strictly_under (f_path e0) (f_path e1) = true /\
                 spec_whitelisted (basename (f_path e1)) = true)).

Lemma purge_one_attic_at f v e :
  In e (purge_one f v) -> under [name_attic] (f_path e) = true ->
  In e f \/ created_parent v e \/ from_victim_at (purge_base f v) f v e.
Proof.
  rewrite purge_one_eq. intros H Ha. apply filter_In in H as [H _].
  apply fold_put_in in H as [H|H].
  - apply mkdir_all_in in H as [H|[Hn Hp]].
    + left. now apply filter_In in H as [H _].
    + right; left. split; assumption.
  - right; right. apply in_map_iff in H as [e0 [<- H0]].
    apply filter_In in H0 as [H0 Hs]. pose proof H0 as Hsub.
    apply filter_In in H0 as [H0 Hu]. apply filter_In in H0 as [H0 Ht]. apply negb_true_iff in Ht.
    exists e0. split; [exact H0|]. split; [exact Hu|]. split; [exact Ht|]. split; [reflexivity|].
    apply orb_true_iff in Hs as [Hs|Hs]; [left; now apply path_beq_eq|right].
    apply survives_spec in Hs as [Hs|[Hn [e1 [H1 [H2 H3]]]]]; [left; now rewrite <- whitelisted_spec|right].
    rewrite whitelisted_spec in H3. split; [exact Hn|]. exists e1.
    apply filter_In in H1 as [H1 Hu1]. apply filter_In in H1 as [H1 Ht1]. apply negb_true_iff in Ht1.
    auto 6.
Qed.

(* ---- well-formedness is preserved ---- *)
Lemma split_on_no_sep sep s : forall cur c,
  ~ In sep cur -> In c (split_on sep s cur) -> ~ In sep c.
Proof.
  induction s as [|x s IH]; intros cur c Hcur Hc; simpl in Hc.
  - destruct cur as [|y cur]; [destruct Hc|]. destruct Hc as [<-|[]].
    intros H. apply in_rev in H. contradiction.
  - destruct (N.eqb_spec x sep) as [->|Hx].
    + destruct cur as [|y cur].
      * eapply IH; [|exact Hc]. intros [].
      * destruct Hc as [<-|Hc].
        -- intros H. apply in_rev in H. contradiction.
        -- eapply IH; [|exact Hc]. intros [].
    + eapply IH; [|exact Hc]. intros [H|H]; [now apply Hx|contradiction].
Qed.

Lemma attic_dst_no_slash v c : In c (attic_dst v) -> ~ In 47 c.
Proof.
  unfold attic_dst. intros [<-|H]; [apply attic_no_slash|].
  eapply split_on_no_sep; [|exact H]. intros [].
Qed.

Lemma firstn_in {A} k : forall (l : list A) x, In x (firstn k l) -> In x l.
Proof. exact (fun l x => firstn_In k l x). Qed.

Definition comps_ok (p : list bytes) : Prop := Forall (fun c => ~ In 47 c) p.

Lemma attic_parents_ok v p : In p (attic_parents (attic_dst v)) -> comps_ok p.
Proof.
  unfold attic_parents. intros [<-|H].
  - constructor; [apply attic_no_slash|constructor].
  - unfold proper_prefixes in H. apply in_map_iff in H as [k [<- _]].
    apply Forall_forall. intros c Hc. apply firstn_in in Hc. now apply attic_dst_no_slash in Hc.
Qed.

Lemma mkdir_one_nodup f p : NoDup (map f_path f) -> NoDup (map f_path (mkdir_one f p)).
Proof.
  intros Hnd. unfold mkdir_one. destruct (has_path p f) eqn:E; [exact Hnd|].
  rewrite map_app. simpl. apply NoDup_app_one; [exact Hnd|].
  intros Hin. apply in_map_iff in Hin as [e [He Hin]].
  assert (Hp : has_path p f = true) by (apply has_path_in; eauto). congruence.
Qed.

Lemma mkdir_all_nodup ps : forall f, NoDup (map f_path f) -> NoDup (map f_path (mkdir_all ps f)).
Proof.
  induction ps as [|p ps IH]; intros f Hnd; simpl; [exact Hnd|]. apply IH. now apply mkdir_one_nodup.
Qed.

Lemma put_nodup f x : NoDup (map f_path f) -> NoDup (map f_path (put f x)).
Proof.
  intros Hnd. unfold put. rewrite map_app. simpl. apply NoDup_app_one.
  - now apply nodup_paths_filter.
  - intros Hin. apply in_map_iff in Hin as [e [He Hin]]. apply filter_In in Hin as [_ Hb].
    rewrite He, path_beq_refl in Hb. discriminate.
Qed.

Lemma fold_put_nodup xs : forall f, NoDup (map f_path f) -> NoDup (map f_path (fold_left put xs f)).
Proof.
  induction xs as [|x xs IH]; intros f Hnd; simpl; [exact Hnd|]. apply IH. now apply put_nodup.
Qed.

Lemma wf_purge_one f v : wf_tree f -> ~ In 47 v -> wf_tree (purge_one f v).
Proof.
  intros [Hnd Hc] Hv. split.
  - rewrite purge_one_eq. apply nodup_paths_filter, fold_put_nodup, mkdir_all_nodup.
    unfold f1_of. now apply nodup_paths_filter.
  - rewrite Forall_forall in *. intros e He. rewrite purge_one_eq in He.
    apply filter_In in He as [He _]. apply fold_put_in in He as [He|He].
    + apply mkdir_all_in in He as [He|[_ Hp]].
      * apply filter_In in He as [He _]. now apply Hc.
      * now apply attic_parents_ok in Hp.
    + apply in_map_iff in He as [e0 [<- H0]]. cbn [copy_to f_path].
      apply filter_In in H0 as [H0 _]. apply filter_In in H0 as [H0 _]. apply filter_In in H0 as [H0 _].
      apply Forall_app. split.
      * apply Forall_forall. intros c Hin.
        destruct (purge_base_cases f v) as [Hb|Hb]; rewrite Hb in Hin.
        -- now apply attic_dst_no_slash in Hin.
        -- apply in_app_or in Hin as [Hin|[<-|[]]]; [now apply attic_dst_no_slash in Hin|exact Hv].
      * specialize (Hc _ H0). rewrite Forall_forall in *. intros c Hin. apply Hc.
        destruct (f_path e0); simpl in Hin; [destruct Hin|now right].
Qed.

(* ---- an attic entry away from a victim's destination survives its purge ---- *)
Lemma under_comparable p : forall q r, under p r = true -> under q r = true -> under p q = true \/ under q p = true.
Proof.
  induction p as [|a p IH]; intros q r Hp Hq; [now left|].
  destruct q as [|b q]; [now right|]. destruct r as [|c r]; [discriminate|].
  simpl in *. apply andb_true_iff in Hp as [Ha Hp]. apply andb_true_iff in Hq as [Hb Hq].
  apply beq_eq in Ha, Hb. subst. rewrite beq_refl. simpl. eapply IH; eassumption.
Qed.

Lemma purge_one_keeps_entry f w x :
  In x f -> under [name_attic] (f_path x) = true -> w <> name_attic ->
  under (attic_dst w) (f_path x) = false ->
  In x (purge_one f w).
Proof.
  intros Hin Ha Hne Hfar. rewrite purge_one_eq.
  assert (Hnw : under [w] (f_path x) = false).
  { apply (under_disjoint name_attic); [congruence|exact Ha]. }
  apply filter_In. split; [|now rewrite Hnw].
  apply fold_put_keeps.
  - apply mkdir_all_keeps. apply filter_In. split; [exact Hin|].
    destruct (under [w; name_tmp] (f_path x)) eqn:E; [|reflexivity].
    apply under_tmp_under_v in E. congruence.
  - intros y Hy Heq. apply in_map_iff in Hy as [e0 [<- _]]. cbn [copy_to f_path] in Heq.
    assert (Hu : under (attic_dst w) (f_path x) = true).
    { rewrite <- Heq. eapply under_trans; [apply purge_base_under|apply under_app]. }
    congruence.
Qed.

Lemma fold_purge_keeps_entry vs : forall f x,
  In x f -> under [name_attic] (f_path x) = true -> ~ In name_attic vs ->
  (forall w, In w vs -> under (attic_dst w) (f_path x) = false) ->
  In x (fold_left purge_one vs f).
Proof.
  induction vs as [|w vs IH]; intros f x Hin Ha Hna Hfar; simpl; [exact Hin|].
  apply IH; [|exact Ha|intros H; apply Hna; now right|intros u Hu; apply Hfar; now right].
  apply purge_one_keeps_entry; [exact Hin|exact Ha| |apply Hfar; now left].
  intros ->. apply Hna. now left.
Qed.

(* ---- all victims ---- *)
(* the attic destinations of two invocations are apart: neither lies inside
   the other.  a-b and a--b, or a-b and a, are not apart *)
Definition apart (v w : bytes) : Prop :=
  under (attic_dst v) (attic_dst w) = false /\ under (attic_dst w) (attic_dst v) = false.

Lemma apart_far v w p : apart v w -> under (attic_dst v) p = true -> under (attic_dst w) p = false.
Proof.
  intros [H1 H2] Hv. destruct (under (attic_dst w) p) eqn:E; [|reflexivity].
  destruct (under_comparable _ _ _ Hv E); congruence.
Qed.

Lemma victim_entry_original f w v e0 :
  In e0 (purge_one f w) -> under [v] (f_path e0) = true -> v <> name_attic -> In e0 f.
Proof.
  intros Hin Hu Hne. apply purge_one_new in Hin as [Hin|Ha]; [exact Hin|].
  exfalso. assert (under [v] (f_path e0) = false) by (apply (under_disjoint name_attic); congruence).
  congruence.
Qed.

Lemma from_victim_at_original base f w v e :
  v <> name_attic -> from_victim_at base (purge_one f w) v e -> from_victim_at base f v e.
Proof.
  intros Hne [e0 [H0 [Hu [Ht [He Hk]]]]]. exists e0.
  split; [eapply victim_entry_original; eassumption|]. split; [exact Hu|]. split; [exact Ht|].
  split; [exact He|]. destruct Hk as [Hk|[Hk|[Hn [e1 [H1 [Hu1 [Ht1 [Hs Hw]]]]]]]]; [auto|auto|].
  right; right. split; [exact Hn|]. exists e1. split; [eapply victim_entry_original; eassumption|auto].
Qed.

Lemma fold_purge_struct vs : forall f,
  wf_tree f -> NoDup vs -> ~ In name_attic vs -> (forall v, In v vs -> ~ In 47 v) ->
  (forall v w, In v vs -> In w vs -> v <> w -> apart v w) ->
  exists B : bytes -> list bytes,
    (forall v, B v = attic_dst v \/ B v = attic_dst v ++ [v]) /\
    (forall v e0, In v vs -> In e0 f -> under [v] (f_path e0) = true ->
       under [v; name_tmp] (f_path e0) = false ->
       (f_path e0 = [v] \/ whitelisted (basename (f_path e0)) = true) ->
       In (copy_to (B v) e0) (fold_left purge_one vs f)) /\
    (forall e, In e (fold_left purge_one vs f) -> under [name_attic] (f_path e) = true ->
       In e f \/ exists v, In v vs /\ (created_parent v e \/ from_victim_at (B v) f v e)).
Proof.
  induction vs as [|w vs IH]; intros f Hwf Hnd Hna Hsl Hap.
  - exists attic_dst. split; [auto|]. split; [intros v e0 []|]. intros e He _. now left.
  - inversion Hnd as [|? ? Hw Hnd']; subst.
    assert (Hwa : w <> name_attic) by (intros ->; apply Hna; now left).
    assert (Hna' : ~ In name_attic vs) by (intros H; apply Hna; now right).
    destruct (IH (purge_one f w)) as [B' [HB' [Hc' Hp']]].
    { apply wf_purge_one; [exact Hwf|apply Hsl; now left]. }
    { exact Hnd'. } { exact Hna'. } { intros v Hv. apply Hsl. now right. }
    { intros a b Ha Hb. apply Hap; now right. }
    exists (fun x => if beq x w then purge_base f w else B' x).
    split; [|split].
    + intros v. destruct (beq_spec v w) as [->|_]; [apply purge_base_cases|apply HB'].
    + intros v e0 Hv H0 Hu Ht Hk. cbn [fold_left]. destruct (beq_spec v w) as [->|Hvw].
      * apply fold_purge_keeps_entry; [now apply purge_one_complete| |exact Hna'|].
        -- cbn [copy_to f_path]. eapply under_trans; [apply attic_dst_is_under|].
           eapply under_trans; [apply purge_base_under|apply under_app].
        -- intros u Hu'. apply (apart_far w u).
           ++ apply Hap; [now left|now right|]. intros <-. contradiction.
           ++ cbn [copy_to f_path]. eapply under_trans; [apply purge_base_under|apply under_app].
      * destruct Hv as [->|Hv]; [congruence|]. apply Hc'; auto.
        apply purge_one_outside; [| |exact H0].
        -- apply (under_disjoint v); [exact Hvw|exact Hu].
        -- apply (under_disjoint v); [|exact Hu]. intros ->. contradiction.
    + intros e He Ha. cbn [fold_left] in He. apply Hp' in He as [He|[v [Hv Hk]]]; [| |exact Ha].
      * apply purge_one_attic_at in He as [He|[He|He]]; [now left| | |exact Ha].
        -- right. exists w. split; [now left|]. now left.
        -- right. exists w. split; [now left|]. right. now rewrite beq_refl.
      * right. exists v. split; [now right|].
        assert (Hvw : v <> w) by (intros ->; contradiction).
        destruct (beq_spec v w) as [->|_]; [congruence|].
        destruct Hk as [Hk|Hk]; [now left|right].
        apply (from_victim_at_original _ f w); [|exact Hk]. intros ->. contradiction.
Qed.

Lemma victims_nodup names running n : NoDup names -> NoDup (victim_names names running n).
Proof.
  assert (Hsk : forall (l : list bytes) k, NoDup l -> NoDup (skipn k l)).
  { intros l k Hn. rewrite <- (firstn_skipn k l) in Hn. induction (firstn k l) as [|x t IH]; [exact Hn|].
    inversion Hn; subst. now apply IH. }
  intros Hnd. unfold victim_names. destruct running as [r|]; apply Hsk; [now apply NoDup_filter|exact Hnd].
Qed.

(* ---- names of the form Y-M-D: attic/Y/M/D, one destination per name ---- *)
Definition dashfree (s : bytes) : Prop := s <> [] /\ ~ In 45 s /\ ~ In 47 s.

Definition date_shaped (v : bytes) : Prop :=
  exists y m d, v = y ++ 45 :: m ++ 45 :: d /\ dashfree y /\ dashfree m /\ dashfree d.

Lemma split_on_seg sep s rest : forall cur,
  ~ In sep s -> rev cur ++ s <> [] ->
  split_on sep (s ++ sep :: rest) cur = (rev cur ++ s) :: split_on sep rest [].
Proof.
  induction s as [|c s IH]; intros cur Hs Hne; simpl.
  - rewrite N.eqb_refl. rewrite app_nil_r in *. destruct cur as [|y cur]; [now contradiction Hne|reflexivity].
  - destruct (N.eqb_spec c sep) as [->|Hc]; [exfalso; apply Hs; now left|].
    rewrite IH.
    + simpl. now rewrite <- app_assoc.
    + intros H. apply Hs. now right.
    + simpl. rewrite <- app_assoc. simpl. intros H. apply app_eq_nil in H as [_ H]. discriminate.
Qed.

Lemma split_on_end sep s : forall cur,
  ~ In sep s -> rev cur ++ s <> [] -> split_on sep s cur = [rev cur ++ s].
Proof.
  induction s as [|c s IH]; intros cur Hs Hne; simpl.
  - rewrite app_nil_r in *. destruct cur as [|y cur]; [now contradiction Hne|reflexivity].
  - destruct (N.eqb_spec c sep) as [->|Hc]; [exfalso; apply Hs; now left|].
    rewrite IH.
    + simpl. now rewrite <- app_assoc.
    + intros H. apply Hs. now right.
    + simpl. rewrite <- app_assoc. simpl. intros H. apply app_eq_nil in H as [_ H]. discriminate.
Qed.

Lemma tr_dash_id s : ~ In 45 s -> tr_dash s = s.
Proof.
  induction s as [|c s IH]; intros H; [reflexivity|]. unfold tr_dash in *. simpl.
  change purge_attic_tr_from with 45. destruct (N.eqb_spec c 45) as [->|_]; [exfalso; apply H; now left|].
  f_equal. apply IH. intros H'. apply H. now right.
Qed.

Lemma tr_dash_app a b : tr_dash (a ++ b) = tr_dash a ++ tr_dash b.
Proof. unfold tr_dash. apply map_app. Qed.

Lemma tr_dash_dash s : tr_dash (45 :: s) = 47 :: tr_dash s.
Proof. reflexivity. Qed.

Lemma echo_arg_id s : (forall t, s <> 45 :: t) -> echo_arg s = s.
Proof.
  intros H. destruct s as [|c t]; [reflexivity|]. unfold echo_arg.
  destruct c as [|p]; [reflexivity|].
  repeat (destruct p as [p|p|]; try reflexivity). exfalso. now apply (H t).
Qed.

Lemma attic_dst_date y m d :
  dashfree y -> dashfree m -> dashfree d ->
  attic_dst (y ++ 45 :: m ++ 45 :: d) = [name_attic; y; m; d].
Proof.
  intros [Hy0 [Hy1 Hy2]] [Hm0 [Hm1 Hm2]] [Hd0 [Hd1 Hd2]]. unfold attic_dst. f_equal.
  rewrite echo_arg_id.
  - rewrite tr_dash_app, tr_dash_dash, tr_dash_app, tr_dash_dash, !tr_dash_id by assumption.
    rewrite split_on_seg by (simpl; auto). rewrite split_on_seg by (simpl; auto).
    rewrite split_on_end by (simpl; auto). reflexivity.
  - intros t Ht. destruct y as [|c y]; [now apply Hy0|]. injection Ht as -> _. apply Hy1. now left.
Qed.

Lemma date_shaped_dst v : date_shaped v -> exists y m d, v = y ++ 45 :: m ++ 45 :: d /\ attic_dst v = [name_attic; y; m; d].
Proof. intros [y [m [d [-> [Hy [Hm Hd]]]]]]. exists y, m, d. split; [reflexivity|now apply attic_dst_date]. Qed.

Lemma under_same_length p : forall q, length p = length q -> under p q = true -> p = q.
Proof.
  induction p as [|a p IH]; intros [|b q] Hl Hu; simpl in *; try discriminate; [reflexivity|].
  apply andb_true_iff in Hu as [Ha Hu]. apply beq_eq in Ha. subst. f_equal. apply IH; [now injection Hl|exact Hu].
Qed.

Lemma under_length p : forall q, under p q = true -> (length p <= length q)%nat.
Proof.
  induction p as [|a p IH]; intros [|b q] Hu; simpl in *; try discriminate; try lia.
  apply andb_true_iff in Hu as [_ Hu]. apply IH in Hu. lia.
Qed.

Lemma date_shaped_apart v w : date_shaped v -> date_shaped w -> v <> w -> apart v w.
Proof.
  intros Hv Hw Hne.
  destruct (date_shaped_dst v Hv) as [y [m [d [Ev Dv]]]]. destruct (date_shaped_dst w Hw) as [y' [m' [d' [Ew Dw]]]].
  assert (Hno : forall a b, attic_dst a = attic_dst b -> a = v -> b = w -> False).
  { intros a b He -> ->. rewrite Dv, Dw in He. injection He as -> -> ->. congruence. }
  split.
  - destruct (under (attic_dst v) (attic_dst w)) eqn:E; [|reflexivity]. exfalso.
    apply under_same_length in E; [|now rewrite Dv, Dw]. eapply Hno; eauto.
  - destruct (under (attic_dst w) (attic_dst v)) eqn:E; [|reflexivity]. exfalso.
    apply under_same_length in E; [|now rewrite Dv, Dw]. symmetry in E. eapply Hno; eauto.
Qed.

Lemma date_shaped_has_dash v : date_shaped v -> In 45 v.
Proof. intros [y [m [d [-> _]]]]. apply in_or_app. right. now left. Qed.

Lemma date_shaped_no_slash v : date_shaped v -> ~ In 47 v.
Proof.
  intros [y [m [d [-> [[_ [_ Hy]] [[_ [_ Hm]] [_ [_ Hd]]]]]]]] H.
  apply in_app_or in H as [H|[H|H]]; [auto|discriminate|].
  apply in_app_or in H as [H|[H|H]]; [auto|discriminate|auto].
Qed.

Lemma date_shaped_not_attic v : date_shaped v -> v <> name_attic.
Proof. intros H ->. apply date_shaped_has_dash in H. now apply attic_no_dash. Qed.

Lemma date_shaped_not_tmp v : date_shaped v -> v <> name_tmp.
Proof. intros H ->. apply date_shaped_has_dash in H. now apply tmp_no_dash. Qed.

(* the names build_id hands out are of that form whenever date(1) printed Y-M-D *)
Lemma date_shaped_with_suffix y m d k :
  dashfree y -> dashfree m -> dashfree d -> date_shaped (with_suffix (y ++ 45 :: m ++ 45 :: d) k).
Proof.
  intros Hy Hm [Hd0 [Hd1 Hd2]]. exists y, m, (d ++ 46 :: dec k). split.
  - unfold with_suffix. rewrite <- !app_assoc. simpl. now rewrite <- !app_assoc.
  - split; [exact Hy|]. split; [exact Hm|]. split; [|split].
    + destruct d; discriminate.
    + intros H. apply in_app_or in H as [H|[H|H]]; [auto|discriminate|].
      pose proof (dec_digits k) as Hdg. rewrite Forall_forall in Hdg. specialize (Hdg _ H). discriminate.
    + intros H. apply in_app_or in H as [H|[H|H]]; [auto|discriminate|].
      pose proof (dec_digits k) as Hdg. rewrite Forall_forall in Hdg. specialize (Hdg _ H). discriminate.
Qed.
