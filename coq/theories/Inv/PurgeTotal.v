(* PurgeTotal.v - the kept set WITHOUT the guard lock_consistent: what the
   model of robsd-clean keeps for every lock file whatsoever, from which both
   the guarded statement and the behaviour outside the guard follow for ALL
   locks (not just the two witnesses of PurgeProofs.kept_set_refuted_witness);
   and the guard discharged for the lock file a new invocation writes. *)
From Coq Require Import String.
From Robsd Require Export Inv.PurgeSpec.
From Robsd Require Import Inv.LsProofs Inv.NameProofs Inv.PurgeProofs Base.Sort.
From Coq Require Import Arith Lia.
Local Open Scope N_scope.
Local Opaque name_attic name_tmp.

(* the names purge selects: the listing minus the entry whose printed path is
   the lock's first line, from position n (n+1 when the lock has no first line) *)
Definition victim_names_total (rootstr : bytes) (names : list bytes) (bd : option bytes) (n : nat) : list bytes :=
  match bd with
  | None => skipn n names
  | Some b => skipn (n - 1) (filter (fun v => negb (beq (mkpath rootstr v) b)) names)
  end.

Lemma filter_map_mkpath_any root b names :
  filter (fun p => negb (beq p b)) (map (mkpath root) names) =
  map (mkpath root) (filter (fun v => negb (beq (mkpath root v) b)) names).
Proof.
  induction names as [|x names IH]; simpl; [reflexivity|].
  destruct (beq (mkpath root x) b); simpl; now rewrite IH.
Qed.

Lemma victim_total_incl rootstr names bd n v : In v (victim_names_total rootstr names bd n) -> In v names.
Proof.
  unfold victim_names_total. destruct bd as [b|]; intros H; apply skipn_In in H; [|exact H].
  now apply filter_In in H as [H _].
Qed.

Section Total.
  Variable sortf : list bytes -> list bytes.
  Hypothesis sortf_sorts : sorts sortf.
  Variable rootstr : bytes.

  Lemma victims_total f lock n names :
    wf_tree f -> (1 <= n)%nat ->
    ls sortf rootstr (keepdir_of rootstr) false lock (dirents_of f) = map (mkpath rootstr) names ->
    victims sortf rootstr lock n f =
    map (mkpath rootstr) (victim_names_total rootstr names (running_builddir lock) n).
  Proof.
    intros Hwf Hn Hl. unfold victims.
    destruct (B_omits_exactly sortf rootstr (keepdir_of rootstr) lock (dirents_of f) sortf_sorts
                (dirents_distinct f Hwf)) as [_ [HB _]].
    cbv zeta in HB. rewrite HB, Hl. unfold is_running, victim_names_total.
    destruct (running_builddir lock) as [b|]; cbn [is_builddir].
    - now rewrite filter_map_mkpath_any, map_skipn.
    - rewrite compensation_is_one, filter_all_true by reflexivity. rewrite map_skipn. do 2 f_equal. lia.
  Qed.

  Lemma clean_total f lock keep_conf count ka names :
    wf_tree f -> effective_keep keep_conf count <> 0%nat ->
    ls sortf rootstr (keepdir_of rootstr) false lock (dirents_of f) = map (mkpath rootstr) names ->
    newest_first f names ->
    snd (robsd_clean sortf rootstr keep_conf count ka lock f) =
    clean_tree ka (victim_names_total rootstr names (running_builddir lock) (effective_keep keep_conf count)) f.
  Proof.
    intros Hwf Hne Hl [Hnames _]. unfold robsd_clean.
    destruct (effective_keep keep_conf count) as [|k] eqn:Ek; [contradiction|]. simpl snd.
    rewrite (victims_total f lock (S k) names Hwf) by (auto; lia).
    rewrite map_basename_mkpath; [reflexivity|].
    apply Forall_forall. intros v Hv. apply (invocation_noslash f v Hwf). apply Hnames.
    eapply victim_total_incl. exact Hv.
  Qed.

  (* for every lock file: afterwards the root holds exactly the invocations
     that purge did not select *)
  Lemma kept_set_total f lock keep_conf count ka :
    wf_tree f -> effective_keep keep_conf count <> 0%nat ->
    exists names, newest_first f names /\
      let n := effective_keep keep_conf count in
      let after := snd (robsd_clean sortf rootstr keep_conf count ka lock f) in
      forall v, invocation after v <->
                In v names /\ ~ In v (victim_names_total rootstr names (running_builddir lock) n).
  Proof.
    intros Hwf Hne.
    destruct (listing_names sortf sortf_sorts rootstr f lock Hwf) as [names [Hl Hnf]].
    exists names. split; [exact Hnf|]. cbv zeta.
    rewrite (clean_total f lock keep_conf count ka names Hwf Hne Hl Hnf).
    intros v. rewrite clean_tree_invocation.
    - now rewrite (proj1 Hnf v).
    - intros Hin. apply victim_total_incl in Hin. apply (proj1 Hnf) in Hin. destruct Hin as [_ [_ H]]. now apply H.
  Qed.

  (* ---- outside the guard, for ALL such lock files: a first line that is not
     the printed path of any invocation of the root (the directory was removed
     by hand, is hidden, lies elsewhere, or IS an invocation of the root but is
     spelled differently) makes retention n keep the n-1 newest - whether or
     not one of the others is running ---- *)
  Lemma kept_set_unlisted_lock f lock b keep_conf count ka :
    wf_tree f -> effective_keep keep_conf count <> 0%nat ->
    running_builddir lock = Some b -> (forall v, invocation f v -> mkpath rootstr v <> b) ->
    exists names, newest_first f names /\
      let n := effective_keep keep_conf count in
      let after := snd (robsd_clean sortf rootstr keep_conf count ka lock f) in
      (forall v, invocation after v <-> In v (firstn (n - 1) names)) /\
      length (firstn (n - 1) names) = Nat.min (n - 1) (length names).
  Proof.
    intros Hwf Hne Hb Hun.
    destruct (kept_set_total f lock keep_conf count ka Hwf Hne) as [names [Hnf Hk]].
    exists names. split; [exact Hnf|]. cbv zeta in *. split; [|apply firstn_length].
    intros v. rewrite Hk, Hb. unfold victim_names_total.
    rewrite filter_all_true.
    - pose proof (ssorted_desc_nodup names (proj2 Hnf)) as Hnd. split.
      + intros [Hv Hs]. destruct (in_dec bytes_eq_dec v (firstn (effective_keep keep_conf count - 1) names)) as [H|H]; [exact H|].
        exfalso. apply Hs. now apply firstn_skipn_partition.
      + intros H. assert (Hv : In v names) by (eapply firstn_In; exact H). split; [exact Hv|].
        intros Hs. apply firstn_skipn_partition in Hs; auto.
    - intros x Hx. apply negb_true_iff. destruct (beq_spec (mkpath rootstr x) b) as [E|_]; [|reflexivity].
      exfalso. apply (Hun x); [now apply (proj1 Hnf)|exact E].
  Qed.

  (* the running invocation r, when the lock spells its path differently,
     is kept only if it happens to be among the n-1 newest *)
  Lemma respelled_running_archived f lock b r keep_conf count ka :
    wf_tree f -> effective_keep keep_conf count <> 0%nat ->
    running_builddir lock = Some b -> (forall v, invocation f v -> mkpath rootstr v <> b) ->
    invocation f r ->
    exists names, newest_first f names /\
      (~ In r (firstn (effective_keep keep_conf count - 1) names) ->
       ~ invocation (snd (robsd_clean sortf rootstr keep_conf count ka lock f)) r).
  Proof.
    intros Hwf Hne Hb Hun Hr.
    destruct (kept_set_unlisted_lock f lock b keep_conf count ka Hwf Hne Hb Hun) as [names [Hnf [Hk _]]].
    exists names. split; [exact Hnf|]. cbv zeta in Hk. intros Hn Hi. apply Hn. now apply Hk.
  Qed.
End Total.

(* ---- the guard holds for the lock file of a new invocation: robsd computes
   BUILDDIR="${ROBSDDIR}/$(build_id ...)" and lock_acquire writes
   echo "${_builddir}" >"${_rootdir}/.running" - the same string robsd-ls
   prints for that directory ---- *)
Definition lock_written (builddir : bytes) : option bytes := Some (builddir ++ [10]).

Lemma lock_written_builddir b : nonl b -> nonul b -> running_builddir (lock_written b) = Some b.
Proof.
  intros Hnl Hnu. apply running_builddir_spec. exists (b ++ [10]), []. auto.
Qed.

Lemma lock_consistent_new_invocation rootstr f id :
  nonl rootstr -> nonul rootstr -> nonl id -> nonul id -> invocation f id ->
  lock_consistent rootstr (lock_written (mkpath rootstr id)) (Some id) f.
Proof.
  intros Hr1 Hr2 Hi1 Hi2 Hinv. split; [|exact Hinv]. apply lock_written_builddir.
  - unfold mkpath, nonl. apply Forall_app. split; [exact Hr1|]. constructor; [discriminate|exact Hi1].
  - unfold mkpath, nonul. apply Forall_app. split; [exact Hr2|]. constructor; [discriminate|exact Hi2].
Qed.

Lemma lock_consistent_no_lock rootstr f : lock_consistent rootstr None None f.
Proof. reflexivity. Qed.

(* ---- the part of the robsd-clean script the translator reads (harness/t_util.py):
   count argument and its default, fallback to ${keep}, exit status for
   retention 0, the value of keep-attic that selects the attic, the messages ---- *)
Lemma clean_script_tie :
  clean_count_default = 0%nat /\ clean_zero_exit = 0 /\ clean_attic_value = 1%nat /\
  clean_msg_moving = msg_moving /\ clean_msg_to = msg_to /\ clean_msg_removing = msg_removing.
Proof. repeat split; reflexivity. Qed.

Lemma effective_keep_script keep_conf count :
  effective_keep keep_conf count =
  let k := match count with Some c => c | None => clean_count_default end in
  if Nat.eqb k clean_count_default then keep_conf else k.
Proof. destruct count as [[|c]|]; reflexivity. Qed.
