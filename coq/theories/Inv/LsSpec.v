(* LsSpec.v - what the invocation listing must be, stated without reference to
   how the code computes it: a set comprehension over the directory entries
   plus an ordering condition, and the boolean oracle that is applied to the
   lines robsd-ls actually printed. *)
From Robsd Require Export Inv.LsDefs.
From Coq Require Export Sorting.Sorted Sorting.Permutation.
Local Open Scope N_scope.

(* byte-wise lexicographic order ("name order"): a proper prefix is smaller,
   otherwise the first differing byte decides, bytes compared as numbers *)
Inductive blt : bytes -> bytes -> Prop :=
| blt_nil : forall y b, blt [] (y :: b)
| blt_head : forall x y a b, x < y -> blt (x :: a) (y :: b)
| blt_tail : forall x a b, blt a b -> blt (x :: a) (x :: b).

(* an entry of the root that is an invocation directory *)
Definition qualifies (root keepdir : bytes) (de : dirent) : Prop :=
  d_type de = DT_DIR /\
  (forall t, d_name de <> 46 :: t) /\          (* not hidden *)
  mkpath root (d_name de) <> keepdir.          (* not the keep directory *)

(* [p] must be printed: it is root/name of a qualifying entry and it is not
   the excluded build directory [bd] (None without -B or without a lock) *)
Definition listed (root keepdir : bytes) (bd : option bytes) (ents : list dirent)
    (p : bytes) : Prop :=
  exists de, In de ents /\ qualifies root keepdir de /\
             p = mkpath root (d_name de) /\ bd <> Some p.

(* the whole statement about one listing *)
Definition listing_spec (root keepdir : bytes) (bd : option bytes)
    (ents : list dirent) (out : list bytes) : Prop :=
  (forall p, In p out <-> listed root keepdir bd ents p) /\
  StronglySorted (fun a b => blt b a) out.     (* strictly descending, hence each once *)

(* the directory named by the lock file: its first line, provided the file
   has a newline-terminated first line free of NUL bytes *)
Definition lock_names (lock : option bytes) (b : bytes) : Prop :=
  exists content rest, lock = Some content /\ content = b ++ 10 :: rest /\ nonl b /\ nonul b.

(* a directory is a set of names *)
Definition distinct_names (ents : list dirent) : Prop := NoDup (map d_name ents).

(* ---- boolean oracle ---- *)
Fixpoint bltb (a b : bytes) : bool :=
  match a, b with
  | [], _ :: _ => true
  | x :: a', y :: b' => (x <? y) || ((x =? y) && bltb a' b')
  | _, [] => false
  end.

Fixpoint desc_adjacent (l : list bytes) : bool :=
  match l with
  | a :: (b :: _) as t => bltb b a && desc_adjacent t
  | _ => true
  end.

Definition qualifies_b (root keepdir : bytes) (de : dirent) : bool :=
  dtype_is_dir (d_type de) && negb (hidden (d_name de)) &&
  negb (beq (mkpath root (d_name de)) keepdir).

Definition excluded_b (bd : option bytes) (p : bytes) : bool :=
  match bd with Some b => beq b p | None => false end.

Definition spec_ok_ls (root keepdir : bytes) (bd : option bytes) (ents : list dirent)
    (lines : list bytes) : bool :=
  (* nothing printed that does not belong *)
  forallb (fun p => existsb (fun de => qualifies_b root keepdir de &&
                                        beq (mkpath root (d_name de)) p) ents
                    && negb (excluded_b bd p)) lines &&
  (* nothing missing *)
  forallb (fun de => negb (qualifies_b root keepdir de)
                     || excluded_b bd (mkpath root (d_name de))
                     || existsb (beq (mkpath root (d_name de))) lines) ents &&
  (* strictly descending *)
  desc_adjacent lines.

(* the observation of one run of robsd-ls: exit status and stdout bytes.
   [readdir = None]: the root could not be read, the command must fail
   without output.  [excluded]: the path, as robsd-ls prints it, of the
   directory that must be omitted (None: nothing to omit) *)
Definition spec_ok_stdout_named (root keepdir : bytes) (excluded : option bytes)
    (readdir : option (list dirent)) (exit : N) (out : bytes) : bool :=
  match readdir with
  | None => negb (exit =? 0) && beq out []
  | Some ents =>
      let lines := getlines out in
      (exit =? 0) && beq (unlines lines) out &&
      spec_ok_ls root keepdir excluded ents lines
  end.

(* ... where the directory to omit is the one whose printed path is the first
   line of the lock file, byte for byte *)
Definition spec_ok_stdout (root keepdir : bytes) (skipB : bool) (lock : option bytes)
    (readdir : option (list dirent)) (exit : N) (out : bytes) : bool :=
  spec_ok_stdout_named root keepdir (if skipB then running_builddir lock else None) readdir exit out.
