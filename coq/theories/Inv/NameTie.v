(* NameTie.v - what the translator (harness/t_util.py -> gen/Gen_Util.v) read
   out of util.sh, checked against what the name models assume.  These lemmas
   stop compiling when the build_id of util.sh is no longer the repaired one
   (next free suffix), or when the log name format or the duplicate threshold
   of log_id change (build_init and the shape of the functions are checked by
   the translator itself, which refuses anything it does not know). *)
From Robsd Require Import Inv.NameSpec Inv.NameProofs.
From RobsdGen Require Import Gen_Util.

Lemma log_constants :
  log_pad_width = 3%nat /\ log_ext = dot_log /\ log_dups_threshold = 0%nat.
Proof. repeat split; reflexivity. Qed.

(* build_id in util.sh is one of the two algorithms modelled *)
Lemma current_tie :
  (build_id_is_fixed = false /\ build_id_current = build_id /\ gen_build_id_current = gen_build_id) \/
  (build_id_is_fixed = true /\ build_id_current = build_id_fixed /\ gen_build_id_current = gen_build_id_fixed).
Proof. first [left; repeat split; reflexivity | right; repeat split; reflexivity]. Qed.

Lemma current_fresh_if_fixed :
  build_id_is_fixed = true ->
  (forall d start base tree, fresh_in (build_id_current d start base tree) tree) /\
  (forall d s, ~ In (gen_build_id_current d s) s) /\
  (forall ops s, no_collision (snd (history gen_build_id_current s ops))).
Proof.
  intros H. destruct current_tie as [[Hf _]|[_ [Hc Hg]]]; [congruence|].
  rewrite Hc, Hg. split; [|split].
  - intros. apply has_top_fresh, fixed_tree_fresh.
  - apply fixed_flat_fresh.
  - apply fixed_history_no_collision.
Qed.

(* ... and it is the repaired one: this is the lemma that breaks when the
   loop is taken out of build_id again *)
Lemma current_is_fixed : build_id_is_fixed = true.
Proof. reflexivity. Qed.

Lemma current_fresh :
  (forall d start base tree, fresh_in (build_id_current d start base tree) tree) /\
  (forall d s, ~ In (gen_build_id_current d s) s) /\
  (forall ops s, no_collision (snd (history gen_build_id_current s ops))).
Proof. exact (current_fresh_if_fixed current_is_fixed). Qed.

Lemma current_flat d start base names :
  prefixb d base = false -> nlcount start = 0%nat -> Forall (fun n => nlcount n = 0%nat) names ->
  build_id_current d start base (flat_tree names) = gen_build_id_current d names.
Proof.
  destruct current_tie as [[Hf _]|[_ [-> ->]]]; [rewrite current_is_fixed in Hf; discriminate|].
  apply build_id_fixed_flat.
Qed.

Lemma current_conservative d start base tree :
  (has_top (build_id d start base tree) tree = false ->
     build_id_current d start base tree = build_id d start base tree) /\
  exists k, build_id_current d start base tree = with_suffix d k /\
            (S (find_lines start base (date_test d) tree) <= k)%nat.
Proof.
  destruct current_tie as [[Hf _]|[_ [-> _]]]; [rewrite current_is_fixed in Hf; discriminate|].
  split; [apply fixed_agrees_when_fresh|apply fixed_named_after_count].
Qed.
