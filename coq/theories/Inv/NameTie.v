(* NameTie.v - what the translator (harness/t_util.py -> gen/Gen_Util.v) read
   out of util.sh, checked against what the name models assume.  These lemmas
   stop compiling when the build_id of util.sh is no longer the repaired one
   (largest suffix in use today plus one), or when the log name format or the duplicate threshold
   of log_id change (build_init and the shape of the functions are checked by
   the translator itself, which refuses anything it does not know). *)
From Robsd Require Import Inv.NameSpec Inv.NameProofs Inv.NameMax.
From RobsdGen Require Import Gen_Util.
Local Open Scope N_scope.

Lemma log_constants :
  log_pad_width = 3%nat /\ log_ext = dot_log /\ log_dups_threshold = 0%nat.
Proof. repeat split; reflexivity. Qed.

(* build_id in util.sh is one of the three algorithms modelled *)
Lemma current_tie :
  (build_id_variant = 0 /\ build_id_current = build_id /\ gen_build_id_current = gen_build_id) \/
  (build_id_variant = 1 /\ build_id_current = build_id_fixed /\ gen_build_id_current = gen_build_id_fixed) \/
  (build_id_variant = 2 /\ build_id_current = build_id_max /\ gen_build_id_current = gen_build_id_max).
Proof.
  first [left; repeat split; reflexivity | right; left; repeat split; reflexivity | right; right; repeat split; reflexivity].
Qed.

(* both repairs hand out fresh names; the shipped count+1 does not *)
Lemma current_fresh_if_repaired :
  build_id_variant <> 0 ->
  (forall d start base tree, fresh_in (build_id_current d start base tree) tree) /\
  (forall d s, ~ In (gen_build_id_current d s) s) /\
  (forall ops s, no_collision (snd (history gen_build_id_current s ops))).
Proof.
  intros H. destruct current_tie as [[Hf _]|[[_ [Hc Hg]]|[_ [Hc Hg]]]]; [congruence| |]; rewrite Hc, Hg.
  - split; [|split].
    + intros. apply has_top_fresh, fixed_tree_fresh.
    + apply fixed_flat_fresh.
    + apply fixed_history_no_collision.
  - split; [|split].
    + intros. apply has_top_fresh, max_tree_fresh.
    + apply max_flat_fresh.
    + apply max_history_no_collision.
Qed.

(* ... and it is the one that continues after the largest suffix in use: this
   is the lemma that breaks when build_id goes back to counting *)
Lemma current_is_max : build_id_variant = 2.
Proof. reflexivity. Qed.

Lemma current_is_repaired : build_id_variant <> 0.
Proof. rewrite current_is_max. discriminate. Qed.

Lemma current_fresh :
  (forall d start base tree, fresh_in (build_id_current d start base tree) tree) /\
  (forall d s, ~ In (gen_build_id_current d s) s) /\
  (forall ops s, no_collision (snd (history gen_build_id_current s ops))).
Proof. exact (current_fresh_if_repaired current_is_repaired). Qed.

Lemma current_flat d start base names :
  build_id_current d start base (flat_tree names) = gen_build_id_current d names.
Proof.
  destruct current_tie as [[Hf _]|[[Hf _]|[_ [-> ->]]]]; try (rewrite current_is_max in Hf; discriminate).
  apply build_id_max_flat.
Qed.

(* the name is DATE.k with k above every suffix in use that day *)
Lemma current_above d start base tree :
  named_after d (build_id_current d start base tree) = true /\
  build_id_current d start base tree = with_suffixN d (N.succ (max_suffix d (top_level tree))) /\
  forall n k, In n (top_level tree) -> day_suffix d n = Some k -> k < N.succ (max_suffix d (top_level tree)).
Proof.
  destruct current_tie as [[Hf _]|[[Hf _]|[_ [-> _]]]]; try (rewrite current_is_max in Hf; discriminate).
  split; [apply max_named_after|]. split; [reflexivity|]. intros n k. apply max_above_all.
Qed.
