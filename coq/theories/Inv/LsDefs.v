(* LsDefs.v - executable model of the invocation lister.  Definitions only.
   Anchors: invocation.c invocation_read / match_directory / invocation_alloc /
   invocation_walk / directory_desc_cmp, robsd-ls.c main,
   conf.c config_default_build_dir (the value of ${builddir}).

   A directory is what readdir(3) hands out: a list of (name, d_type).  Paths,
   names and file contents are byte strings (Base/Bytes.v).  libc's qsort is a
   parameter [sortf] of the model; [isort] below is the instance the extracted
   driver runs (LsProofs.v: every sorting function gives the same listing). *)
From Robsd Require Export Base.Bytes.
Local Open Scope N_scope.

(* d_type as far as the code distinguishes it: only DT_DIR is accepted, so a
   symbolic link to a directory (DT_LNK) and a file system that answers
   DT_UNKNOWN are both rejected *)
Inductive dtype := DT_DIR | DT_REG | DT_LNK | DT_UNKNOWN | DT_OTHER.

Definition dtype_is_dir (t : dtype) : bool :=
  match t with DT_DIR => true | _ => false end.

Record dirent := mkde { d_name : bytes; d_type : dtype }.

(* de->d_name[0] == '.' *)
Definition hidden (name : bytes) : bool :=
  match name with c :: _ => c =? 46 | [] => false end.

(* snprintf(path, sizeof(path), "%s/%s", directory, de->d_name) *)
Definition mkpath (root name : bytes) : bytes := root ++ 47 :: name.

(* match_directory *)
Definition match_directory (root keepdir : bytes) (de : dirent) : bool :=
  if dtype_is_dir (d_type de)
  then negb (beq (mkpath root (d_name de)) keepdir)
  else false.

(* the loop of invocation_read with match = match_directory: entries in
   readdir order *)
Definition accepted (root keepdir : bytes) (de : dirent) : bool :=
  negb (hidden (d_name de)) && match_directory root keepdir de.

Definition invocation_read (root keepdir : bytes) (ents : list dirent) : list bytes :=
  map (fun de => mkpath root (d_name de)) (filter (accepted root keepdir) ents).

(* strcmp on NUL-free strings: bytes compare as unsigned char, a proper prefix
   is smaller *)
Fixpoint strcmp (a b : bytes) : comparison :=
  match a, b with
  | [], [] => Eq
  | [], _ :: _ => Lt
  | _ :: _, [] => Gt
  | x :: a', y :: b' =>
      match x ?= y with
      | Eq => strcmp a' b'
      | c => c
      end
  end.

(* directory_desc_cmp(a, b) = strcmp(a->path, b->path); "a may stay before b" *)
Definition desc_cmp_le (a b : bytes) : bool :=
  match strcmp a b with Gt => false | _ => true end.

(* an executable stand-in for qsort(3): insertion sort under desc_cmp_le *)
Fixpoint insert (x : bytes) (l : list bytes) : list bytes :=
  match l with
  | [] => [x]
  | y :: l' => if desc_cmp_le x y then x :: l else y :: insert x l'
  end.

Fixpoint isort (l : list bytes) : list bytes :=
  match l with
  | [] => []
  | x :: l' => insert x (isort l')
  end.

(* invocation_alloc(..., INVOCATION_SORT_DESC) then invocation_walk until NULL:
   VECTOR_SORT with directory_desc_cmp (ascending by strcmp), VECTOR_POP takes
   from the end *)
Definition invocation_find_all (sortf : list bytes -> list bytes)
    (root keepdir : bytes) (ents : list dirent) : list bytes :=
  rev (sortf (invocation_read root keepdir ents)).

(* config_default_build_dir: the content of <root>/.running as a C string; no
   newline before the first NUL means "line not found" and no value *)
Fixpoint upto_nl (l : bytes) : option bytes :=
  match l with
  | [] => None
  | c :: l' => if c =? 10 then Some []
               else match upto_nl l' with Some r => Some (c :: r) | None => None end
  end.

Definition running_builddir (lock : option bytes) : option bytes :=
  match lock with
  | None => None                       (* absent or unreadable *)
  | Some content => upto_nl (cstr content)
  end.

(* strcmp(entry->path, builddir) == 0 -> continue *)
Definition is_builddir (bd : option bytes) (p : bytes) : bool :=
  match bd with Some b => beq p b | None => false end.

(* the loop of main: the listing as a list of paths.  [skipB] is -B *)
Definition ls (sortf : list bytes -> list bytes) (root keepdir : bytes)
    (skipB : bool) (lock : option bytes) (ents : list dirent) : list bytes :=
  let bd := if skipB then running_builddir lock else None in
  filter (fun p => negb (is_builddir bd p)) (invocation_find_all sortf root keepdir ents).

(* robsd-ls after a successful configuration load: exit status and stdout.
   [readdir] = None stands for opendir/readdir failing *)
Definition ls_main (sortf : list bytes -> list bytes) (root keepdir : bytes)
    (skipB : bool) (lock : option bytes) (readdir : option (list dirent)) : N * bytes :=
  match readdir with
  | None => (1, [])
  | Some ents => (0, unlines (ls sortf root keepdir skipB lock ents))
  end.

(* the instance run by the driver *)
Definition ls_exec := ls isort.
Definition ls_main_exec := ls_main isort.

(* `robsd-ls ... | wc -l` *)
Definition ls_count (root keepdir : bytes) (skipB : bool) (lock : option bytes)
    (ents : list dirent) : nat :=
  length (ls_exec root keepdir skipB lock ents).
