(* Properties_C12.v - no input crashes, corrupts memory in or hangs the parsers.
   PARTIAL, and said so in MANIFEST.json:
   - PROVED about the models (all inputs, no bound):
     * abnormal termination of the configuration reader (robsd-config, and every helper that parses a
       configuration): the model sets its trap flag in ten places - the source's assert/__builtin_trap sites (counted by the
       translator, C12_source_trap_sites_accounted), the unbounded recursion, a NULL callback, a NULL dereference, and four
       fuel artefacts of the model; NONE is reached for any environment, text, -v list and standard input -
       C12_config_no_abort_holds_now.  Nine are dead for every table passing [trap_free]; the tenth
       (${builddir} needed while ${builddir} is being computed) was live in the shipped code - finding D18,
       replayed on the real robsd-config built with ASan+UBSan: stack-overflow, findings/D18_builddir_reentry.md,
       repaired in /repo 35cfab1 - and is dead with the re-entry guard the translator now finds in the source
       (C12_config_no_abort_if_guarded); C12_config_no_abort_refuted / _partial / C12_builddir_guard are the
       historical pins of the shipped body;
     * exit status and standard output of the WHOLE command models, every outcome classified with its cause
       (robsd-config: C12_config_exit_and_diag, with the diagnostic; robsd-step -R / -W, robsd-regress-log,
       interpolation: C12_step_read_outcome, C12_step_write_outcome, C12_regress_log_outcome,
       C12_interpolation_reject_names_line); a rejection prints nothing on standard output;
     * termination: the parsers are total Coq functions; the fuelled loops never run out of fuel
       (C12_config_lexer_total, C12_step_rows_fuel_sufficient, and sites 5, 7, 9 of Conf/ConfAbort.v);
     * the lexer cursor of lexer.c stays inside its buffer (C12_lexer_bounds).
   - OBSERVED only (the installed tools cannot prove it about C): absence of memory errors and undefined
     behaviour in the C code - clang ASan+UBSan builds fed with grammar-derived inputs, their mutations and
     raw bytes (harness/c12.py), compared with the models where one exists; "promptly" = 5 s per execution.
   - REFUTED, with the exact bound: "terminates promptly" read as "with a cost proportional to the input" - the result of an
     interpolation can hold (V/4)^3 times the template, V = the longest value (C12_interp_output_bound, tight:
     C12_interp_fanout_exact, C12_interp_fanout_attains_bound; no linear bound: C12_interp_cost_refuted); replayed on the real
     helpers: 3.3 kB of input run for 14 s (known finding interpolation-fanout-not-prompt, findings/C12_interp_fanout.md). *)
From Robsd Require Import Safety.LexerDefs Safety.SafetyProofs Safety.ExitProofs Step.StepDefs Step.StepSpec RegressLog.RLSpec
  Interp.InterpSpec Interp.InterpProofs Interp.InterpCost Conf.ConfCost
  Conf.ConfDefs Conf.ConfSpec Conf.ConfReject Conf.ConfInst Conf.ConfAbort Conf.ConfAbortInst Conf.ConfPins.
From RobsdGen Require Import Gen_Interp Gen_Conf.
From RobsdGen Require Gen_Report.
Local Open Scope Z_scope.

(* lexer.c: for every input length, every content and every sequence of
   lexer_getc / lexer_ungetc calls the offset stays within [0, len] and no
   byte outside the buffer is read.  The guards are read from the source. *)
Theorem C12_lexer_bounds : forall len byte_at ops,
  0 <= len ->
  lgood len (fst (lrun len byte_at linit ops)) /\ snd (lrun len byte_at linit ops) = false.
Proof. exact (fun len byte_at ops H => lexer_bounds len byte_at ops H linit (linit_good len H)). Qed.
Print Assumptions C12_lexer_bounds.

(* the only fuelled loop of the step-file parser never runs out of fuel: the
   result does not depend on the fuel once it exceeds the number of tokens,
   which is what parse_file passes *)
Theorem C12_step_rows_fuel_sufficient : forall cols n toks f,
  (length toks <= n)%nat -> (n < f)%nat -> parse_rows f cols toks = parse_rows (S n) cols toks.
Proof. exact parse_rows_fuel_sufficient. Qed.
Print Assumptions C12_step_rows_fuel_sufficient.

(* the configuration lexer never runs out of fuel either, in any mode, on any bytes *)
Theorem C12_config_lexer_total : forall T text, lex T text <> LexFuel.
Proof. exact lex_fuel. Qed.
Print Assumptions C12_config_lexer_total.

(* ------------------------------------------------------------------ abnormal termination: the configuration reader *)
(* full statement [config_no_abort_statement]: for every environment, mode, text, -v list and standard input
   robsd-config does not trap.  It holds of the source as it is now: *)
Theorem C12_config_no_abort_holds_now : config_no_abort_statement.
Proof.
  exact (fun E m text vars stdin =>
    config_no_abort_if_guarded E (tables_of m) text vars stdin (trap_free_gen m)
      (match m return t_builddir_guard (tables_of m) = true with
       | ROBSD => eq_refl | ROBSD_CROSS => eq_refl | ROBSD_PORTS => eq_refl | ROBSD_REGRESS => eq_refl | CANVAS => eq_refl end)).
Qed.
Print Assumptions C12_config_no_abort_holds_now.

(* HISTORICAL PIN (D18, repaired in /repo 35cfab1): the statement was false for the shipped body of
   config_default_build_dir.  Conditioned on the translator's switch [t_builddir_guard] being false, which it
   no longer is, so this says nothing about the present source; should the guard be removed, the switch flips,
   C12_config_no_abort_holds_now (by [eq_refl] on the switch) no longer checks and the reentry lane of
   harness/c12.py replays these witnesses on the implementation.  The witnesses: an ACCEPTED configuration,
   harmless until ${builddir} is referenced; the same trap while parsing; the same in canvas mode. *)
Theorem C12_config_no_abort_refuted :
  t_builddir_guard (tables_of ROBSD) = false ->
  ~ config_no_abort_statement
  /\ (exists c, config_parse wit_env_all (tables_of ROBSD) wit_reentry_text = Accepted c /\ c_abort c = false)
  /\ r_abort (robsd_config wit_env_all (tables_of ROBSD) wit_reentry_text [] wit_reentry_stdin) = true
  /\ (exists c, config_parse wit_env_all (tables_of ROBSD) wit_reentry_parse_text = Rejected c /\ c_abort c = true)
  /\ r_abort (robsd_config wit_env_all (tables_of CANVAS) wit_reentry_canvas_text [] wit_reentry_canvas_stdin) = true.
Proof.
  exact (fun Hf => conj (proj1 (config_no_abort_refuted Hf))
          (conj (proj1 (builddir_reentry_witness Hf))
             (conj (proj1 (proj2 (proj2 (builddir_reentry_witness Hf)))) (proj2 (proj2 (proj2 (builddir_reentry_witness Hf))))))).
Qed.
Print Assumptions C12_config_no_abort_refuted.

(* the statement is false for the shipped body and a theorem for the one guarded against re-entry
   (findings/D18_builddir_reentry.diff); the translator tells which one the source has *)
Theorem C12_config_no_abort :
  (t_builddir_guard (tables_of ROBSD) = false /\ ~ config_no_abort_statement)
  \/ (t_builddir_guard (tables_of ROBSD) = true /\ config_no_abort_statement).
Proof. exact config_no_abort_dichotomy. Qed.
Print Assumptions C12_config_no_abort.

(* for any table with the guarded body: every input, for ever *)
Theorem C12_config_no_abort_if_guarded : forall E T text vars stdin,
  trap_free T = true -> t_builddir_guard T = true -> r_abort (robsd_config E T text vars stdin) = false.
Proof. exact config_no_abort_if_guarded. Qed.
Print Assumptions C12_config_no_abort_if_guarded.

(* for the shipped body (HISTORICAL, still true of both bodies): exact guard [builddir_not_reentered] - a
   computation of ${builddir} does not trap, i.e. never needs ${builddir} again.  Under it NO input traps the reader: the other nine trap sites of the model (computed
   default behind ${parallel}, two INVALID-typed static defaults, the three loop fuels, the lexer fuel, a
   keyword row without parser, a list variable of another type) are dead for every table passing [trap_free] *)
Theorem C12_config_no_abort_partial : forall E m text vars stdin,
  builddir_not_reentered E (tables_of m) -> r_abort (robsd_config E (tables_of m) text vars stdin) = false.
Proof. exact config_no_abort_partial. Qed.
Print Assumptions C12_config_no_abort_partial.

(* ... for any table whatsoever that passes the computed check (the documented tables pass it too) *)
Theorem C12_config_traps_only_in_builddir : forall E T text vars stdin,
  trap_free T = true -> builddir_not_reentered E T -> r_abort (robsd_config E T text vars stdin) = false.
Proof. exact (fun E T text vars stdin TF BD => no_abort_unless_builddir E T TF BD text vars stdin). Qed.
Print Assumptions C12_config_traps_only_in_builddir.

Theorem C12_trap_free_tables : forall m, trap_free (tables_of m) = true /\ trap_free (doc_tables m) = true.
Proof. exact (fun m => conj (trap_free_gen m) (trap_free_doc m)). Qed.
Print Assumptions C12_trap_free_tables.

(* THE ASSERT / TRAP / ABORT SITES OF THE SOURCE: the translator lists every function of conf.c, conf-*.c, conf-token.c, lexer.c,
   variable-value.c, interpolate.c, if.c, robsd-config.c that contains assert( / __builtin_trap( / abort( with the number of sites.
   They are exactly the four of [trap_site_table]: two are sites 2, 3 and 6 of the model (dead by C12_config_no_abort_holds_now),
   two are unreachable by a guard the translator pins (config_interpolate_lookup returns NULL for an INVALID value before its
   switch; every caller of variable_value_append initialises the value as a LIST first).  A new site, or a second one in a listed
   function, stops this proof.  The model's other seven trap flags are hazards that are not written as assert/trap in C (NULL
   dereference in config_default_parallel, unbounded recursion D21, call through a NULL gr_fn) or fuel artefacts of the model. *)
Theorem C12_source_trap_sites_accounted :
  src_trap_sites = map (fun x => match x with (f, fn, n, _) => (bs f, bs fn, n) end) trap_site_table
  /\ modelled_sites = [2; 3; 6]%nat.
Proof. exact (conj trap_sites_accounted modelled_sites_are). Qed.
Print Assumptions C12_source_trap_sites_accounted.

(* HISTORICAL PIN for the shipped body: the guard fails on the witness, and it holds whenever robsddir is
   defined without a '$' (every realistic configuration) *)
Theorem C12_builddir_guard :
  (t_builddir_guard (tables_of ROBSD) = false -> ~ builddir_not_reentered wit_env_all (tables_of ROBSD))
  /\ (forall E T c n s, find_var (c_vars c) kw_robsddir = Some (VStr s) -> nodollar s ->
                        c_abort (fst (build_dir E T c n)) = c_abort c).
Proof. exact (conj (fun Hf => proj2 (config_no_abort_refuted Hf)) build_dir_plain). Qed.
Print Assumptions C12_builddir_guard.

(* ------------------------------------------------------------------ exit status, diagnostic, standard output *)
(* robsd-config -m mode -C file [-v var=val ...] - as a whole: exit 0 or 1; exit 1 comes with an EMPTY standard
   output and a diagnostic of one of the four shapes of [cmd_diag] (file:line of the configuration; invalid
   substitution while parsing; a refused -v; /dev/stdin:line); exit 0 only for an accepted configuration *)
Theorem C12_config_exit_and_diag : forall E m text vars stdin,
  let r := robsd_config E (tables_of m) text vars stdin in
  (r_exit r = 0%N \/ r_exit r = 1%N)
  /\ (r_exit r = 1%N -> r_stdout r = [] /\ exists d, In d (r_diags r) /\ cmd_diag (tables_of m) d)
  /\ (r_exit r = 0%N -> exists c, config_parse E (tables_of m) text = Accepted c).
Proof. exact (fun E m text vars stdin => config_exit_and_diag E (tables_of m) text vars stdin (wf_tokens_gen m)). Qed.
Print Assumptions C12_config_exit_and_diag.

(* robsd-step -R: every outcome is one of five, each with its cause; only the first prints *)
Theorem C12_step_read_outcome : forall file sel template,
  read_outcome file sel template (read_cmd file sel template).
Proof. exact step_read_outcome. Qed.
Print Assumptions C12_step_read_outcome.

Theorem C12_step_read_exit_iff : forall file sel template,
  (fst (read_cmd file sel template) = 0%N <->
   exists content rows st out, file = Some content /\ parse_file content = Some rows /\ select_row rows sel = Some st
                               /\ interp_file depth_limit (row_lookup st) template = inl out)
  /\ (fst (read_cmd file sel template) <> 0%N -> read_cmd file sel template = (1%N, [])).
Proof. exact step_read_exit_iff. Qed.
Print Assumptions C12_step_read_exit_iff.

(* robsd-step -W: exit 1 leaves the file as it was (or emptied when the final flush fails, D3);
   exit 0 replaces a file that parsed by a well-formed serialisation *)
Theorem C12_step_write_outcome : forall fault file idarg kvs,
  (fst (write_cmd fault file idarg kvs) = 1%N /\ snd (write_cmd fault file idarg kvs) = file) \/
  (fault = true /\ fst (write_cmd fault file idarg kvs) = 1%N /\ snd (write_cmd fault file idarg kvs) = Some []) \/
  (fault = false /\ fst (write_cmd fault file idarg kvs) = 0%N /\ exists content rows rs b,
      file = Some content /\ parse_file content = Some rows /\
      serialize_rows (sort_rows rs) = Some b /\ snd (write_cmd fault file idarg kvs) = Some (header ++ b)).
Proof. exact step_write_outcome. Qed.
Print Assumptions C12_step_write_outcome.

(* robsd-regress-log, any flags: exit 2 exactly when a file is unreadable; output only with exit 0 (and -p) *)
Theorem C12_regress_log_outcome : forall fl doprint files,
  (fst (main fl doprint files) = 2%N <-> exists f, In f files /\ f = None)
  /\ (fst (main fl doprint files) = 0%N \/ fst (main fl doprint files) = 1%N \/ fst (main fl doprint files) = 2%N)
  /\ (fst (main fl doprint files) <> 0%N -> snd (main fl doprint files) = [])
  /\ (doprint = false -> snd (main fl doprint files) = []).
Proof. exact regress_log_outcome. Qed.
Print Assumptions C12_regress_log_outcome.

(* interpolation (robsd-config -, robsd-step -R templates): a rejection exits 1 with nothing printed and is
   caused by the FIRST line that does not expand - the line the diagnostic names; exit 0 or 1 otherwise *)
Theorem C12_interpolation_reject_names_line : forall limit env content,
  (forall k e, interp_file limit env content = inr (k, e) ->
     interp_cmd limit env content = (1%N, []) /\
     exists i l, nth_error (clines content) i = Some l /\ k = (i + 1)%nat /\
                 interp (pred limit) false env l = IErr e /\
                 forall j l', (j < i)%nat -> nth_error (clines content) j = Some l' ->
                              is_ok (interp (pred limit) false env l') = true) /\
  (fst (interp_cmd limit env content) = 0%N \/
   (fst (interp_cmd limit env content) = 1%N /\ snd (interp_cmd limit env content) = [])).
Proof. exact fail_closed. Qed.
Print Assumptions C12_interpolation_reject_names_line.

(* ------------------------------------------------------------------ the cost of interpolation *)
(* HOW LARGE THE RESULT CAN GET, as a function of the input sizes and the depth limit: with every value at most V >= 4 bytes
   long (as a C string) and d levels usable below the template (the code: limit 5, d = 3)
       4^d * |result| <= |template line| * V^d
   for both values of the IGNORE flag and every environment, cyclic or not *)
Theorem C12_interp_output_bound : forall ig env V, (4 <= V)%nat ->
  (forall n v, env n = Some v -> (length (cstr v) <= V)%nat) ->
  forall d s out, interp (S d) ig env s = IOk out -> (4 ^ d * length out <= length s * V ^ d)%nat.
Proof. exact output_bound. Qed.
Print Assumptions C12_interp_output_bound.

(* the same for the interpolation the configuration reader really runs (lookups that define variables and advance the
   rdomain counter): templates, directory values, the env option of a test; V bounds what a lookup hands back *)
Theorem C12_config_interp_output_bound : forall E T V d, t_depth_limit T = S (S d) -> (4 <= V)%nat ->
  (forall early c n c' v, lookup1 E T early c n = (c', Some v) -> (length (cstr v) <= V)%nat) ->
  (forall c s c' out, cfg_interp E T c s = (c', IOk out) -> (4 ^ d * length out <= length (cstr s) * V ^ d)%nat)
  /\ (forall c s c' out, cfg_interp_early E T c s = (c', IOk out) -> (4 ^ d * length out <= length (cstr s) * V ^ d)%nat).
Proof. exact cfg_interp_output_bound. Qed.
Print Assumptions C12_config_interp_output_bound.

(* THE BOUND IS REACHED: F references in the template and in each value level above a leaf give the leaf F^levels times, from
   a template of 4F bytes and values of at most max(4F, |leaf|) bytes; the code's limit admits levels = 3 *)
Theorem C12_interp_fanout_exact : forall F levels leaf, (1 <= levels <= 20)%nat -> ~ In DOLLAR leaf -> ~ In 0%N leaf ->
  interp (S levels) false (fan_env F levels leaf) (rep F (ref (lvl_name 0))) = IOk (rep (F ^ levels) leaf)
  /\ length (rep F (ref (lvl_name 0))) = (4 * F)%nat
  /\ length (rep (F ^ levels) leaf) = (F ^ levels * length leaf)%nat
  /\ (forall n v, fan_env F levels leaf n = Some v -> (length v <= Nat.max (4 * F) (length leaf))%nat).
Proof. exact fanout_exact. Qed.
Print Assumptions C12_interp_fanout_exact.

Theorem C12_interp_fanout_attains_bound : forall F, (1 <= F)%nat ->
  let leaf := rep (4 * F) [120%N] in
  exists out, interp 4 false (fan_env F 3 leaf) (rep F (ref (lvl_name 0))) = IOk out
              /\ (4 ^ 3 * length out = length (rep F (ref (lvl_name 0))) * (4 * F) ^ 3)%nat.
Proof. exact fanout_attains_bound. Qed.
Print Assumptions C12_interp_fanout_attains_bound.

(* full statement (does not hold): the result is at most K times as large as the input, for some constant K.  REFUTED for
   every K at the code's depth limit: an input of size 4(4K+4) yields more than K times its size *)
Theorem C12_interp_cost_refuted : forall K : nat, exists env s out (size : nat),
  interp 4 false env s = IOk out
  /\ (length s <= size)%nat /\ (forall n v, env n = Some v -> (length v <= size)%nat)
  /\ (K * size < length out)%nat.
Proof. exact no_linear_bound. Qed.
Print Assumptions C12_interp_cost_refuted.

(* non-vacuity: a cursor walk with ungetc at offset 0 and getc past the end *)
Example C12_example :
  let ops := [OpUngetc 10%N; OpGetc; OpGetc; OpUngetc 97%N; OpGetc; OpGetc; OpGetc; OpUngetc 0%N] in
  lrun 2 (fun i => if i =? 0 then 10%N else 97%N) linit ops = (mklstate 2 2 2, false).
Proof. vm_compute. reflexivity. Qed.

(* /repo f0fc0f7: robsd-report -m robsd-regress says why it fails when a log cannot be read (before: exit 1 with empty
   standard error).  Standard error is not an output of the report model, so this is a PIN on the source, not a theorem about
   behaviour: the translator reads which of the two bodies regress_report_step_log has; with the silent one this proof fails
   and C12's report lane (a row naming a directory as its log) shows the rejection without a diagnostic. *)
Theorem C12_report_regress_unreadable_log_is_diagnosed_now : RobsdGen.Gen_Report.regress_unreadable_log_warns = true.
Proof. exact eq_refl. Qed.
Print Assumptions C12_report_regress_unreadable_log_is_diagnosed_now.
