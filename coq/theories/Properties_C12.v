(* Properties_C12.v - no input crashes, corrupts memory in or hangs the parsers.
   PARTIAL, and said so in MANIFEST.json:
   - PROVED about the models (all inputs, no bound): the parsers are total Coq
     functions (structural recursion, or fuel shown below never to run out), so
     they terminate on every byte string; the lexer cursor of lexer.c stays
     inside its buffer for every sequence of getc/ungetc calls; every helper
     model exits with a documented status and prints nothing on standard
     output when it rejects.
   - OBSERVED only (the installed tools cannot prove it about C): absence of
     memory errors and undefined behaviour in the C code - clang ASan+UBSan
     builds fed with grammar-derived inputs, their mutations and raw bytes
     (harness/c12.py), compared with the models where one exists. *)
From Robsd Require Import Safety.LexerDefs Safety.SafetyProofs Step.StepDefs RegressLog.RLSpec Interp.InterpSpec Interp.InterpProofs.
Local Open Scope Z_scope.

(* lexer.c: for every input length, every content and every sequence of
   lexer_getc / lexer_ungetc calls the offset stays within [0, len] and no
   byte outside the buffer is read.  The guards are read from the source. *)
Theorem C12_lexer_bounds : forall len byte_at ops,
  0 <= len ->
  lgood len (fst (lrun len byte_at linit ops)) /\ snd (lrun len byte_at linit ops) = false.
Proof. exact (fun len byte_at ops H => lexer_bounds len byte_at ops H linit (linit_good len H)). Qed.
Print Assumptions C12_lexer_bounds.

(* the only fuelled loop of the step-file parser never runs out of fuel: the
   result does not depend on the fuel once it exceeds the number of tokens,
   which is what parse_file passes *)
Theorem C12_step_rows_fuel_sufficient : forall cols n toks f,
  (length toks <= n)%nat -> (n < f)%nat -> parse_rows f cols toks = parse_rows (S n) cols toks.
Proof. exact parse_rows_fuel_sufficient. Qed.
Print Assumptions C12_step_rows_fuel_sufficient.

(* documented exit statuses; nothing on standard output when rejecting *)
Theorem C12_step_read_exit : forall file sel template,
  fst (read_cmd file sel template) = 0%N \/
  (fst (read_cmd file sel template) = 1%N /\ snd (read_cmd file sel template) = []).
Proof. exact step_read_exit. Qed.
Print Assumptions C12_step_read_exit.

Theorem C12_step_write_exit : forall fault file idarg kvs,
  fst (write_cmd fault file idarg kvs) = 0%N \/ fst (write_cmd fault file idarg kvs) = 1%N.
Proof. exact step_write_exit. Qed.
Print Assumptions C12_step_write_exit.

Theorem C12_regress_log_exit : forall fl doprint files,
  fNEWLINE fl = false ->
  (fst (main fl doprint files) = 0%N \/ fst (main fl doprint files) = 1%N \/ fst (main fl doprint files) = 2%N) /\
  (fst (main fl doprint files) <> 0%N -> snd (main fl doprint files) = []).
Proof. exact regress_log_exit. Qed.
Print Assumptions C12_regress_log_exit.

Theorem C12_interpolation_exit : forall limit env content,
  fst (interp_cmd limit env content) = 0%N \/
  (fst (interp_cmd limit env content) = 1%N /\ snd (interp_cmd limit env content) = []).
Proof. exact cmd_exit. Qed.
Print Assumptions C12_interpolation_exit.

(* non-vacuity: a cursor walk with ungetc at offset 0 and getc past the end *)
Example C12_example :
  let ops := [OpUngetc 10%N; OpGetc; OpGetc; OpUngetc 97%N; OpGetc; OpGetc; OpGetc; OpUngetc 0%N] in
  lrun 2 (fun i => if i =? 0 then 10%N else 97%N) linit ops = (mklstate 2 2 2, false).
Proof. vm_compute. reflexivity. Qed.
