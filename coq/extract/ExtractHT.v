(* Extraction of the regress-html model and oracle for the correspondence driver.
   ExtrOcamlBasic only; no Extract Constant; Z/N/positive/nat stay Coq datatypes. *)
From Coq Require Import Extraction ExtrOcamlBasic.
From Robsd Require Import Html.HtmlDefs Html.HtmlSpec Html.HtmlRowDefs Html.HtmlPage Html.HtmlParse.
Extraction Language OCaml.
Extraction "ht_model.ml" run_html_exec spec_check spec_ok obs_of rate_float rate_int rate_of
  duration_delta classify spec_status extract_log spec_extract has_tag status_str status_failure to_int32 all_statuses
  inv_le run_le suite_le dir_le render_column view walk_dirs exec_qsorts si_total si_fail spec_rate
  rows_report page_bytes index_bytes parse_index obs_of_files page_safeb orow_of.
