(* Extraction of the configuration model, its specification oracles and the
   schedule model.  ExtrOcamlBasic only. *)
From Coq Require Import Extraction ExtrOcamlBasic.
From Robsd Require Import Conf.ConfDefs Conf.ConfOracle Conf.SchedDefs Conf.SchedSpec.
From Robsd Require Import Conf.SchedCanvasEnd.
From RobsdGen Require Import Gen_Conf.
Extraction Language OCaml.
Extraction "cf_model.ml" robsd_config tables_of spec_config spec_accepts list_cmd resolve spec_full_ok spec_offset_ok
  list_cmd_with canvas_end_reserved.
