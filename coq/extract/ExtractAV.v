(* Extraction of the C06 model (argv construction of robsd-exec / robsd-hook,
   wait status mapping) and of the specification oracles for the
   correspondence driver.  ExtrOcamlBasic only; no Extract Constant. *)
From Coq Require Import Extraction ExtrOcamlBasic.
From Robsd Require Import Exec.ArgvDefs Exec.ArgvSpec.
Extraction Language OCaml.
Extraction "av_model.ml" mode_schedule resolve step_argv run_with hook_run exit_of_wait exit_spec
  expect_step expect_hook spec_ok_step spec_ok_hook find_step_null_checked N.of_nat run_fork
  step_exec_run empty_command_checked.
