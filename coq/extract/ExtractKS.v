(* Extraction of the libks models (C20) for the correspondence driver.
   ExtrOcamlBasic only; no Extract Constant; Z/N/positive/nat stay Coq datatypes. *)
From Coq Require Import Extraction ExtrOcamlBasic.
From Robsd Require Import Ks.ArithDefs Ks.ArithSpec Ks.KsInst.
Extraction Language OCaml.
Extraction "ks_model.ml" Nat.add N.add fallback fallback_sig spec_ok_checked
  vrun_inst spec_ok_vec_inst brun_inst spec_ok_buf_inst
  mrun_inst spec_ok_map disciplined dict0 hash_jen.
