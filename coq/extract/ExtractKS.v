(* Extraction of the libks models (C20) for the correspondence driver.
   ExtrOcamlBasic only; no Extract Constant; Z/N/positive/nat stay Coq datatypes. *)
From Coq Require Import Extraction ExtrOcamlBasic.
From Robsd Require Import Ks.ArithDefs Ks.ArithSpec Ks.KsInst.
Extraction Language OCaml.
Extraction "ks_model.ml" Nat.add N.add fallback fallback_sig entry_point spec_ok_checked
  vrun_inst vrun_instf spec_ok_vec_inst brun_inst brun_instf grun_instf spec_ok_buf_inst spec_ok_gbuf_inst
  mrun_inst arun_inst spec_ok_kdict no_reinsert kd_first_reject spec_ok_multi multi_width dict0 hash_jen.
