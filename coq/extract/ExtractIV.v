(* Extraction of the invocation models (listing C15, naming C17, cleaning C16)
   for the correspondence driver.  ExtrOcamlBasic only; no Extract Constant;
   N/positive/nat stay Coq datatypes. *)
From Coq Require Import Extraction ExtrOcamlBasic.
From Robsd Require Import Inv.LsDefs Inv.LsSpec Inv.NameDefs Inv.NameSpec Inv.PurgeDefs Inv.PurgeSpec Inv.NameNewDefs.
From RobsdGen Require Import Gen_Util.
Extraction Language OCaml.
Extraction "iv_model.ml" ls_exec ls_main_exec ls_count running_builddir spec_ok_ls spec_ok_stdout spec_ok_stdout_named
  build_id build_id_fixed build_id_max build_id_current gen_build_id_current build_id_variant build_init log_id attempts history
  gen_build_id gen_build_id_fixed gen_build_id_max
  spec_ok_build_id spec_ok_log_id spec_ok_kept
  robsd_clean_x_exec effective_keep spec_ok_clean spec_ok_clean_age invocations_desc kept_of
  new_invocation lock_acquire lstep attempt.
