(* Extraction of the report model (C05, C18) for the correspondence driver.
   ExtrOcamlBasic only; no Extract Constant; N/Z/positive/nat stay Coq datatypes. *)
From Coq Require Import Extraction ExtrOcamlBasic.
From Robsd Require Import Report.ReportFixture Report.ReportSpec Report.DurationSpec.
Extraction Language OCaml.
Extraction "rp_model.ml" run_fixture sh_total_fixture
  spec_ok_bytes spec_ok_bytes_numbers name_order_is_age sizes_as_by_name bytes_numbers_as_by_name
  spec_ok_exit spec_ok_status spec_ok_sections spec_ok_body spec_ok_sane
  spec_ok_total spec_ok_step_duration spec_ok_sizes spec_ok_shell.
