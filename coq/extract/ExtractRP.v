(* Extraction of the report model (C05, C18) for the correspondence driver.
   ExtrOcamlBasic only; no Extract Constant; N/Z/positive/nat stay Coq datatypes. *)
From Coq Require Import Extraction ExtrOcamlBasic.
From Robsd Require Import Report.ReportFixture.
Extraction Language OCaml.
Extraction "rp_model.ml" run_fixture sh_total_fixture.
