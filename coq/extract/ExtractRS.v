(* Extraction of the resume / sequential orchestrator model (C03).  ExtrOcamlBasic only. *)
From Coq Require Import Extraction ExtrOcamlBasic.
From Robsd Require Import Orch.ResumeSpec.
Extraction Language OCaml.
Extraction "rs_model.ml" step_next spec_resume resume_okb spec_ok_next spec_ok_resumed orch from_step Nat.pred.
