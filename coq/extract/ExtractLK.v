(* Extraction of the lock model (C02).  ExtrOcamlBasic only. *)
From Coq Require Import Extraction ExtrOcamlBasic.
From Robsd Require Import Lock.LockSpec.
Extraction Language OCaml.
Extraction "lk_model.ml" init run trace final_reports spec_ok_serial ops_upd op_upd no_mids robsd_mids direct_part log file.
