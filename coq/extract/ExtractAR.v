(* Extraction of the arena model and the C19 oracle for the correspondence driver.
   ExtrOcamlBasic only; no Extract Constant; N/positive/nat stay Coq datatypes. *)
From Coq Require Import Extraction ExtrOcamlBasic.
From Robsd Require Import Arena.ArenaDefs Arena.ArenaSpec.
Extraction Language OCaml.
Extraction "ar_model.ml" hrun init mkCfg spec_check spec_ok.
