(* Extraction of the arena model and the C19 oracle for the correspondence driver.
   ExtrOcamlBasic only; no Extract Constant; N/positive/nat stay Coq datatypes.
   Definitions files only (ArenaDefs, ArenaSpec, ArenaClientDefs): the driver still builds when a proof breaks. *)
From Coq Require Import Extraction ExtrOcamlBasic.
From Robsd Require Import Arena.ArenaDefs Arena.ArenaSpec Arena.ArenaClientDefs.
Extraction Language OCaml.
Extraction "ar_model.ml" hrun cut_exposed init mkCfg spec_check spec_ok buf_reserve vec_reserve buf_newsiz vec_newsiz reserve_sizes mkBuf mkVec buf_hist vec_hist.
