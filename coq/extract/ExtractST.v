(* Extraction of the step file model.  ExtrOcamlBasic only. *)
From Coq Require Import Extraction ExtrOcamlBasic.
From Robsd Require Import Step.StepDefs Step.StepSpec Step.StepFault Step.StepNameSpec Step.StepOracle2Defs.
Extraction Language OCaml.
Extraction "st_model.ml" write_cmd write_cmdk read_cmd parse_file row_id header spec_ok_history spec_ok_names spec_nrows
  spec_ok_history2 spec_ok_names2 first_mismatch serialize_rows sort_rows write_new.
