(* Extraction of the step file model.  ExtrOcamlBasic only. *)
From Coq Require Import Extraction ExtrOcamlBasic.
From Robsd Require Import Step.StepDefs Step.StepSpec.
Extraction Language OCaml.
Extraction "st_model.ml" write_cmd read_cmd parse_file header spec_ok_history spec_nrows.
