(* Extraction of the orchestrator transition system, its oracles (C04, C11) and the lock model.  ExtrOcamlBasic only. *)
From Coq Require Import Extraction ExtrOcamlBasic.
From Robsd Require Import Orch.OrchSpec Orch.RunLock Orch.LoopEnd.
Extraction Language OCaml.
Extraction "or_model.ml" oinit ostep orun main_step job_step spec_ok_trace spec_ok_account trap_exit Nat.pred
  lock_acquire lock_release attempt fell_off trap_exit_of.
