(* Extraction of the interpolation model.  ExtrOcamlBasic only. *)
From Coq Require Import Extraction ExtrOcamlBasic.
From Robsd Require Import Interp.InterpDefs Interp.InterpSpec.
Extraction Language OCaml.
Extraction "ip_model.ml" interp_str interp_file interp_cmd alookup spec_ok_cmd.
