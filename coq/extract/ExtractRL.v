(* Extraction of the regress-log model for the correspondence driver.
   ExtrOcamlBasic only; no Extract Constant; N/positive/nat stay Coq datatypes. *)
From Coq Require Import Extraction ExtrOcamlBasic.
From Robsd Require Import RegressLog.RLDefs RegressLog.RLSpec RegressLog.RLCallDefs RegressLog.RLTrim RegressLog.RLOracles.
Extraction Language OCaml.
Extraction "rl_model.ml" main parse peek trim spec_main spec_ok_main spec_ok_peek
  regress_failed step_exec_exit html_status hfailure
  trim_spec spec_ok_trim spec_ok_peek_exact failing_lineb spec_ok_step.
