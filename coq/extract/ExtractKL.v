(* Extraction of the C07 model (runner + kernel model + script interpreter) and
   of the specification oracle for the correspondence driver.
   ExtrOcamlBasic only; no Extract Constant; Z/positive/nat stay Coq datatypes.
   (N.of_nat is listed only because the shared hexio glue mentions the type n.) *)
From Coq Require Import Extraction ExtrOcamlBasic.
From Robsd Require Import Exec.KillDefs Exec.KillSpec.
Extraction Language OCaml.
Extraction "kl_model.ml" interp init_tree observe history_of flatten spec_okb exec N.of_nat.
