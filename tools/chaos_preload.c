/* chaos_preload.c - LD_PRELOAD shim used by the undriven lane of C02: widens the windows between the
 * file-system operations of a process by sleeping a pseudo-random 0..CHAOS_MAX_US microseconds before
 * and after flock(2), before fclose(3)/close(2)/write(2) and after fopen(3)/open(2).  The sequence of
 * delays is derived from CHAOS_SEED and the pid, so that a run can be repeated.  Trusted harness code. */
#define _GNU_SOURCE
#include <dlfcn.h>
#include <stdarg.h>
#include <stdio.h>
#include <stdlib.h>
#include <fcntl.h>
#include <unistd.h>
#include <sys/file.h>

static unsigned long long state;
static long max_us = -1;

static void
chaos(void)
{
	if (max_us == -1) {
		const char *m = getenv("CHAOS_MAX_US");
		const char *s = getenv("CHAOS_SEED");
		max_us = m ? atol(m) : 0;
		state = (s ? strtoull(s, NULL, 10) : 1) * 6364136223846793005ULL + (unsigned long long)getpid() * 1442695040888963407ULL + 1;
	}
	if (max_us <= 0)
		return;
	state = state * 6364136223846793005ULL + 1442695040888963407ULL;
	if (((state >> 33) & 3) == 0)		/* most calls are not delayed */
		usleep((useconds_t)((state >> 35) % (unsigned long long)max_us));
}

int
flock(int fd, int op)
{
	static int (*real)(int, int);
	int rv;

	if (!real) real = dlsym(RTLD_NEXT, "flock");
	chaos();
	rv = real(fd, op);
	chaos();
	return rv;
}

int
fclose(FILE *fh)
{
	static int (*real)(FILE *);

	if (!real) real = dlsym(RTLD_NEXT, "fclose");
	chaos();
	return real(fh);
}

FILE *
fopen(const char *path, const char *mode)
{
	static FILE *(*real)(const char *, const char *);
	FILE *fh;

	if (!real) real = dlsym(RTLD_NEXT, "fopen");
	fh = real(path, mode);
	chaos();
	return fh;
}

ssize_t
write(int fd, const void *buf, size_t n)
{
	static ssize_t (*real)(int, const void *, size_t);

	if (!real) real = dlsym(RTLD_NEXT, "write");
	if (fd > 2) chaos();
	return real(fd, buf, n);
}

int
close(int fd)
{
	static int (*real)(int);

	if (!real) real = dlsym(RTLD_NEXT, "close");
	if (fd > 2) chaos();
	return real(fd);
}
