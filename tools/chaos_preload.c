/* chaos_preload.c - LD_PRELOAD shim used by the undriven lane of C02: widens the windows between the
 * file-system operations of a process by sleeping a pseudo-random 0..CHAOS_MAX_US microseconds before
 * and after flock(2), before fclose(3)/close(2)/write(2) and after fopen(3)/open(2).  The sequence of
 * delays is derived from CHAOS_SEED and the pid, so that a run can be repeated.
 * With CHAOS_TRACE=<file> every intercepted call on a descriptor above 2 is also appended to <file>
 * (one line each, with the size of the file behind the descriptor where that is what the model
 * predicts): the call-order lane of C02 compares these lines with the order and the intermediate
 * contents of the transition system.  Trusted harness code. */
#define _GNU_SOURCE
#include <dlfcn.h>
#include <stdarg.h>
#include <stdio.h>
#include <stdlib.h>
#include <fcntl.h>
#include <unistd.h>
#include <sys/file.h>
#include <sys/stat.h>
#include <string.h>

#include <sys/syscall.h>
static long
syscall_write(int fd, const void *buf, size_t n)
{
	return syscall(SYS_write, fd, buf, n);
}

static unsigned long long state;
static long max_us = -1;

static void
chaos(void)
{
	if (max_us == -1) {
		const char *m = getenv("CHAOS_MAX_US");
		const char *s = getenv("CHAOS_SEED");
		max_us = m ? atol(m) : 0;
		state = (s ? strtoull(s, NULL, 10) : 1) * 6364136223846793005ULL + (unsigned long long)getpid() * 1442695040888963407ULL + 1;
	}
	if (max_us <= 0)
		return;
	state = state * 6364136223846793005ULL + 1442695040888963407ULL;
	if (((state >> 33) & 3) == 0)		/* most calls are not delayed */
		usleep((useconds_t)((state >> 35) % (unsigned long long)max_us));
}

static long long
size_of(int fd)
{
	struct stat sb;

	return fstat(fd, &sb) == 0 ? (long long)sb.st_size : -1;
}

static void
trace(const char *fmt, const char *a, long long x, long long y)
{
	static int (*real_close)(int);
	const char *path = getenv("CHAOS_TRACE");
	char buf[160];
	int fd, n;

	if (path == NULL)
		return;
	if (!real_close) real_close = dlsym(RTLD_NEXT, "close");
	fd = open(path, O_WRONLY | O_APPEND | O_CREAT, 0600);
	if (fd == -1)
		return;
	n = snprintf(buf, sizeof(buf), fmt, a, x, y);
	if (n > 0)
		(void)!syscall_write(fd, buf, (size_t)n);
	real_close(fd);
}

int
flock(int fd, int op)
{
	static int (*real)(int, int);
	int rv;

	if (!real) real = dlsym(RTLD_NEXT, "flock");
	chaos();
	if ((op & ~LOCK_NB) == LOCK_UN)
		trace("flock %s %lld\n", "UN", size_of(fd), 0);
	rv = real(fd, op);
	if ((op & ~LOCK_NB) != LOCK_UN)
		trace("flock %s %lld\n", (op & ~LOCK_NB) == LOCK_EX ? "EX" : "SH", size_of(fd), 0);
	chaos();
	return rv;
}

int
fclose(FILE *fh)
{
	static int (*real)(FILE *);

	if (!real) real = dlsym(RTLD_NEXT, "fclose");
	chaos();
	if (getenv("CHAOS_TRACE") != NULL && fileno(fh) > 2) {
		int fd = dup(fileno(fh)), rv;
		long long before = size_of(fd);

		rv = real(fh);
		trace("fclose %s%lld %lld\n", "", before, size_of(fd));
		close(fd);
		return rv;
	}
	return real(fh);
}

FILE *
fopen(const char *path, const char *mode)
{
	static FILE *(*real)(const char *, const char *);
	FILE *fh;

	if (!real) real = dlsym(RTLD_NEXT, "fopen");
	fh = real(path, mode);
	if (fh != NULL)
		trace("fopen %s %lld\n", mode, size_of(fileno(fh)), 0);
	chaos();
	return fh;
}

ssize_t
write(int fd, const void *buf, size_t n)
{
	static ssize_t (*real)(int, const void *, size_t);

	if (!real) real = dlsym(RTLD_NEXT, "write");
	if (fd > 2) chaos();
	return real(fd, buf, n);
}

int
close(int fd)
{
	static int (*real)(int);

	if (!real) real = dlsym(RTLD_NEXT, "close");
	if (fd > 2) chaos();
	return real(fd);
}
