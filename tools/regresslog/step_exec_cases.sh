# usage: bash step_exec_cases.sh <dir of the built tree> <case dir> <n>
# For i in 0..n-1 runs the real step_exec (util.sh) in the mode of <case dir>/<i>.mode with
# fakeexec printing <case dir>/<i>.log and exiting <case dir>/<i>.rc; prints "<i> <return value>".
# <case dir>/<i>.late present: the pipeline's tee is the late one.
EXECDIR="$1"; _dir="$2"; _n="$3"
_tools="$(cd "$(dirname "$0")" && pwd)"
. "${EXECDIR}/util.sh"
. "${EXECDIR}/util-regress.sh"
config_value() { echo "${_dir}/tmp"; }
mkdir -p "${_dir}/tmp"
DETACH=0
ROBSDEXEC="${_tools}/fakeexec"
_path="${PATH}"
_i=0
while [ "${_i}" -lt "${_n}" ]; do
	_MODE="$(cat "${_dir}/${_i}.mode")"
	export FAKE_LOG="${_dir}/${_i}.log" FAKE_RC="$(cat "${_dir}/${_i}.rc")"
	if [ -e "${_dir}/${_i}.late" ]; then PATH="${_tools}/latetee:${_path}"; else PATH="${_path}"; fi
	_rv=0
	step_exec -l "${_dir}/${_i}.out" -s step >/dev/null 2>&1 || _rv="$?"
	echo "${_i} ${_rv}"
	_i=$((_i + 1))
done
