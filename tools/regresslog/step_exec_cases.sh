# usage: bash step_exec_cases.sh <dir of the built tree> <case dir> <n>
# For i in 0..n-1 runs the real step_exec (util.sh) in the mode of <case dir>/<i>.mode with
# fakeexec printing <case dir>/<i>.log and exiting <case dir>/<i>.rc; prints
#   "<i> <return value> <same|differs> <late|sys>"
# same/differs: the log file step_exec left (tee's output) compared with what the runner printed;
# late/sys: which tee ran.  <case dir>/<i>.late present: the pipeline's tee is the late one, delayed by the
# number of seconds in that file (empty: 0.2).
EXECDIR="$1"; _dir="$2"; _n="$3"
_tools="$(cd "$(dirname "$0")" && pwd)"
. "${EXECDIR}/util.sh"
. "${EXECDIR}/util-regress.sh"
config_value() { echo "${_dir}/tmp"; }
mkdir -p "${_dir}/tmp"
DETACH=0
ROBSDEXEC="${_tools}/fakeexec"
_path="${PATH}"
_i=0
while [ "${_i}" -lt "${_n}" ]; do
	_MODE="$(cat "${_dir}/${_i}.mode")"
	export FAKE_LOG="${_dir}/${_i}.log" FAKE_RC="$(cat "${_dir}/${_i}.rc")"
	rm -f "${_dir}/${_i}.out" "${_dir}/${_i}.out.late-tee"
	if [ -e "${_dir}/${_i}.late" ]; then
		PATH="${_tools}/latetee:${_path}"
		LATE_TEE_DELAY="$(cat "${_dir}/${_i}.late")"; export LATE_TEE_DELAY="${LATE_TEE_DELAY:-0.2}"
	else
		PATH="${_path}"
	fi
	_rv=0
	step_exec -l "${_dir}/${_i}.out" -s step >/dev/null 2>&1 || _rv="$?"
	PATH="${_path}"
	if cmp -s "${FAKE_LOG}" "${_dir}/${_i}.out"; then _same=same; else _same=differs; fi
	if [ -e "${_dir}/${_i}.out.late-tee" ]; then _lt=late; else _lt=sys; fi
	echo "${_i} ${_rv} ${_same} ${_lt}"
	_i=$((_i + 1))
done
