/* c01_fsize.c - run a command under a byte-granular file size limit (C01 partial-write lane).
 *   c01_fsize <bytes> cmd [args...]
 * RLIMIT_FSIZE = <bytes> and SIGXFSZ ignored: write(2) lets the file grow to <bytes> (short count) and then
 * fails with EFBIG, which is how a file system that runs full in the middle of a write looks to the process.
 * Trusted harness code. */
#include <sys/resource.h>
#include <signal.h>
#include <stdio.h>
#include <stdlib.h>
#include <unistd.h>

int
main(int argc, char *argv[])
{
	struct rlimit rl;

	if (argc < 3) {
		fprintf(stderr, "usage: c01_fsize bytes cmd [args...]\n");
		return 127;
	}
	rl.rlim_cur = rl.rlim_max = (rlim_t)strtoull(argv[1], NULL, 10);
	if (setrlimit(RLIMIT_FSIZE, &rl) == -1) {
		perror("setrlimit");
		return 127;
	}
	signal(SIGXFSZ, SIG_IGN);
	execvp(argv[2], &argv[2]);
	perror(argv[2]);
	return 127;
}
