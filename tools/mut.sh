#!/bin/bash
# usage: mut.sh <ID> <python-edit-script>   (edit script runs with cwd = scratch copy)
id=$1; d=$(mktemp -d /tmp/mut.XXXX); rsync -a --exclude=.git --exclude='*.o' /repo/ $d/
( cd $d && python3 -c "$2" ) || { echo "edit failed"; rm -rf $d; exit 1; }
( cd $d && diff -r -q /repo $d --exclude=.git --exclude='*.o' --exclude='*.d' | head -3 )
cd /verif && VERIF_REPO=$d timeout 1200 bin/check $id | grep -E "VIOLATION|KNOWN|quick" | cut -c1-220
rm -rf $d
