/* kl_hold.c - LD_PRELOAD shim for C07: a sync point in the forked child of
 * robsd-exec, placed before setsid(2), without touching the source.
 *
 * step_fork's child calls setsid(), then closes its end of the handshake pipe
 * and execs the step.  With ROBSD_VERIF_HOLD=child.before_setsid and
 * ROBSD_VERIF_FIFO naming a FIFO in the environment, the interposed setsid()
 * writes "child.before_setsid <pid>\n" to the FIFO and stops the calling
 * process with SIGSTOP - the protocol of VERIF_POINT in /repo/verif.h - before
 * it calls the real setsid().  The scheduler (tools/kl_sched.py) resumes it
 * with SIGCONT whenever the script says so: a child that is held for longer
 * than waiteof()'s 1000 ms is "a process group that does not come up in time"
 * (a loaded machine).  Without the two variables the shim does nothing.
 * Trusted harness code. */
#define _GNU_SOURCE
#include <dlfcn.h>
#include <errno.h>
#include <fcntl.h>
#include <signal.h>
#include <stdio.h>
#include <stdlib.h>
#include <string.h>
#include <unistd.h>

pid_t
setsid(void)
{
	static pid_t (*real)(void);
	const char *hold, *fifo;

	if (!real)
		real = (pid_t (*)(void))dlsym(RTLD_NEXT, "setsid");
	hold = getenv("ROBSD_VERIF_HOLD");
	fifo = getenv("ROBSD_VERIF_FIFO");
	if (hold != NULL && fifo != NULL && strcmp(hold, "child.before_setsid") == 0) {
		char buf[64];
		int fd, n, saved_errno = errno;

		n = snprintf(buf, sizeof(buf), "child.before_setsid %ld\n", (long)getpid());
		do {
			fd = open(fifo, O_WRONLY);
		} while (fd == -1 && errno == EINTR);
		if (fd != -1) {
			if (n > 0 && write(fd, buf, (size_t)n) == -1)
				n = 0;
			close(fd);
		}
		raise(SIGSTOP);
		errno = saved_errno;
	}
	return real();
}
