/* kl_hold.c - LD_PRELOAD shim for C07: (1) a sync point in the forked child of
 * robsd-exec, placed before setsid(2), without touching the source; (2) a log of
 * the kill(2) calls (see below).
 *
 * step_fork's child calls setsid(), then closes its end of the handshake pipe
 * and execs the step.  With ROBSD_VERIF_HOLD=child.before_setsid and
 * ROBSD_VERIF_FIFO naming a FIFO in the environment, the interposed setsid()
 * writes "child.before_setsid <pid>\n" to the FIFO and stops the calling
 * process with SIGSTOP - the protocol of VERIF_POINT in /repo/verif.h - before
 * it calls the real setsid().  The scheduler (tools/kl_sched.py) resumes it
 * with SIGCONT whenever the script says so: a child that is held for longer
 * than waiteof()'s 1000 ms is "a process group that does not come up in time"
 * (a loaded machine).  Without the two variables the shim does nothing.
 * Trusted harness code. */
#define _GNU_SOURCE
#include <dlfcn.h>
#include <errno.h>
#include <fcntl.h>
#include <signal.h>
#include <stdio.h>
#include <stdlib.h>
#include <string.h>
#include <unistd.h>

/*
 * kill(2), observed: with ROBSD_VERIF_KILLLOG naming a file, every call of
 * kill() made by a process that has this object preloaded is appended to it as
 * "<caller pid> <target> <signal> <result>\n" after the real call returned.  The
 * scheduler reads from it which signals the RUNNER sent to the step's process
 * group - independently of what the runner prints (warnx texts are free to
 * change).  One write(2) per line, O_APPEND: lines of concurrent callers do not
 * mix.
 */
int
kill(pid_t pid, int sig)
{
	static int (*real)(pid_t, int);
	const char *log;
	int r, saved_errno;

	if (!real)
		real = (int (*)(pid_t, int))dlsym(RTLD_NEXT, "kill");
	r = real(pid, sig);
	saved_errno = errno;
	log = getenv("ROBSD_VERIF_KILLLOG");
	if (log != NULL) {
		char buf[96];
		int fd, n;

		n = snprintf(buf, sizeof(buf), "%ld %ld %d %d\n", (long)getpid(), (long)pid, sig, r);
		fd = open(log, O_WRONLY | O_APPEND | O_CREAT, 0644);
		if (fd != -1) {
			if (n > 0 && write(fd, buf, (size_t)n) == -1)
				n = 0;
			close(fd);
		}
	}
	errno = saved_errno;
	return r;
}

pid_t
setsid(void)
{
	static pid_t (*real)(void);
	const char *hold, *fifo;

	if (!real)
		real = (pid_t (*)(void))dlsym(RTLD_NEXT, "setsid");
	hold = getenv("ROBSD_VERIF_HOLD");
	fifo = getenv("ROBSD_VERIF_FIFO");
	if (hold != NULL && fifo != NULL && strcmp(hold, "child.before_setsid") == 0) {
		char buf[64];
		int fd, n, saved_errno = errno;

		n = snprintf(buf, sizeof(buf), "child.before_setsid %ld\n", (long)getpid());
		do {
			fd = open(fifo, O_WRONLY);
		} while (fd == -1 && errno == EINTR);
		if (fd != -1) {
			if (n > 0 && write(fd, buf, (size_t)n) == -1)
				n = 0;
			close(fd);
		}
		raise(SIGSTOP);
		errno = saved_errno;
	}
	return real();
}
