#!/bin/bash
# usage: lanes_alone.sh <seeded dir name, e.g. C04> <property ID to check> 
# Applies /verif/seeded/<dir>/patch.diff to a scratch copy of /repo, runs bin/check <ID> against it and prints what the
# END-TO-END LANES ALONE found (model/implementation disagreements and oracle failures by signature), next to what the
# translators / tie theorems said.  Measures the detection power of the lanes for a change that the text pins catch first.
set -u
seed=$1; id=$2
d=$(mktemp -d /tmp/mut.w3lanes.XXXX)
rsync -a --exclude=.git --exclude='*.o' --exclude='*.d' /repo/ "$d"/
( cd "$d" && patch -p1 -s < /verif/seeded/$seed/patch.diff ) || { echo "patch failed"; rm -rf "$d"; exit 1; }
cd /verif && VERIF_REPO=$d timeout 2400 bin/check "$id" > "$d.log" 2>&1
python3 - "$seed" "$id" <<'PY'
import json, sys, glob, collections
seed, pid = sys.argv[1:3]
e = json.load(open('/verif/evidence/%s.json' % pid))['coverage']
sigs = collections.Counter()
for p in glob.glob('/verif/replay/%s/violation-*.json' % pid):
    pass
print('seed %s against %s: lanes alone -> %d model/impl disagreements, %d oracle failures; tie/proof side: %s' % (
    seed, pid, e['model_impl_disagreements'], e['oracle_failures'], [b[:110] for b in e['broken'] if not b.startswith('correspondence')] or 'quiet'))
PY
grep -E "VIOLATION|KNOWN|quick:" "$d.log" | cut -c1-200
rm -rf "$d" "$d.log"
