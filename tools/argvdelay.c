/*
 * argvdelay.c - LD_PRELOAD object for the C06 harness: setsid(2) sleeps
 * $ARGVDELAY_SETSID_MS milliseconds before doing its work.  robsd-exec calls
 * setsid only in the freshly forked child, before the child closes the pipe
 * the parent polls for about one second (step-exec.c step_fork / waiteof):
 * the delay stands for a child that is not scheduled in time.
 *
 * cc -shared -fPIC -o argvdelay.so argvdelay.c -ldl
 */
#define _GNU_SOURCE
#include <dlfcn.h>
#include <stdlib.h>
#include <unistd.h>

pid_t
setsid(void)
{
	pid_t (*real)(void) = (pid_t (*)(void))dlsym(RTLD_NEXT, "setsid");
	const char *ms = getenv("ARGVDELAY_SETSID_MS");

	if (ms != NULL && atoi(ms) > 0)
		usleep((useconds_t)atoi(ms) * 1000);
	return real();
}
