/*
 * proctree - build a tree of processes from a small description (C07 probe).
 *
 * usage: proctree <description> <readyfile> [lifetime-seconds]
 *
 * description:  node  := disp [ flag ] [ 'e' code ] [ 't' millis ] '(' node* ')'
 *               disp  := 'd'   SIGTERM keeps its default disposition
 *                      | 'i'   SIGTERM is ignored
 *               flag  := 'S'   the process stops itself (SIGSTOP) once it has
 *                              reported: signals but SIGKILL stay pending
 *                      | 'N'   the process calls setsid() before it forks its
 *                              children: it and its subtree LEAVE the group
 *               e<n>  := the process exits with status n when it gets SIGUSR1
 *                        ("exits on its own", driven by the scheduler)
 *               t<ms> := the process exits with its status (0 without e) after
 *                        ms milliseconds (undriven early exit, for race runs and
 *                        the escalation-boundary runs); it says so in the ready
 *                        file like an 'e' node
 *
 * The calling process becomes node 0; nodes are numbered in preorder.  Every
 * process sets its dispositions, forks its children one after the other,
 * appends "<index> <pid>\n" to <readyfile> once all its children exist and
 * then sleeps; an 'e' node appends "x <index>\n" when it exits on SIGUSR1.
 * No process of the tree changes its process group (but an 'N' node, on
 * purpose), so the whole tree stays in the group of node 0.  Children are auto-reaped
 * (SIGCHLD ignored).  As a safety net every process arms alarm(lifetime)
 * (default 60 s, SIGALRM default action) so nothing is ever left behind.
 */
#include <sys/types.h>
#include <sys/wait.h>

#include <errno.h>
#include <fcntl.h>
#include <signal.h>
#include <stdio.h>
#include <stdlib.h>
#include <string.h>
#include <time.h>
#include <unistd.h>

#define MAXNODES	256
#define MAXKIDS		128	/* fan-out classes 15/16/17 ... 63/64/65 */

struct node {
	int	ignore;
	int	stopped;	/* raise(SIGSTOP) after reporting */
	int	newsession;	/* setsid() before forking */
	int	early;		/* exits on SIGUSR1 */
	int	code;
	long	timed;		/* >= 0: exits after that many ms */
	int	nkids;
	int	kids[MAXKIDS];
};

static struct node	nodes[MAXNODES];
static int		nnodes;
static const char	*input;
static int		mycode;
static int		exitfd = -1;
static char		exitline[32];
static size_t		exitlen;

static void
die(const char *msg)
{
	fprintf(stderr, "proctree: %s\n", msg);
	_exit(99);
}

static long
number(void)
{
	long n = 0;

	if (*input < '0' || *input > '9')
		die("number expected");
	while (*input >= '0' && *input <= '9')
		n = n * 10 + (*input++ - '0');
	return n;
}

static int
parse_node(void)
{
	int idx = nnodes++;
	struct node *n;

	if (idx >= MAXNODES)
		die("too many nodes");
	n = &nodes[idx];
	memset(n, 0, sizeof(*n));
	n->timed = -1;
	if (*input == 'i')
		n->ignore = 1;
	else if (*input != 'd')
		die("disposition expected");
	input++;
	if (*input == 'S') {
		n->stopped = 1;
		input++;
	} else if (*input == 'N') {
		n->newsession = 1;
		input++;
	}
	if (*input == 'e') {
		input++;
		n->early = 1;
		n->code = (int)number();
	}
	if (*input == 't') {
		input++;
		n->timed = number();
	}
	if (*input++ != '(')
		die("( expected");
	while (*input != ')') {
		int k;

		if (*input == '\0')
			die(") expected");
		if (n->nkids >= MAXKIDS)
			die("too many children");
		k = parse_node();
		/* nodes[] may not move, so n is still valid */
		n->kids[n->nkids++] = k;
	}
	input++;
	return idx;
}

/* "exits on its own": say so in the ready file (write(2) is async-signal-safe), then exit */
static void
onusr1(int signo)
{
	(void)signo;
	if (exitfd != -1 && write(exitfd, exitline, exitlen) == -1)
		_exit(97);
	_exit(mycode);
}

static void
run_node(int idx, const char *ready, unsigned int lifetime)
{
	struct node *n = &nodes[idx];
	struct timespec ts;
	char buf[64];
	int fd, i, len;

	signal(SIGTERM, n->ignore ? SIG_IGN : SIG_DFL);
	signal(SIGCHLD, SIG_IGN);
	signal(SIGALRM, SIG_DFL);
	mycode = n->code;
	if (exitfd != -1)
		close(exitfd);
	exitfd = -1;
	if (n->early || n->timed >= 0) {
		exitfd = open(ready, O_WRONLY | O_APPEND | O_CREAT, 0644);
		exitlen = (size_t)snprintf(exitline, sizeof(exitline), "x %d\n", idx);
	}
	signal(SIGUSR1, n->early ? onusr1 : SIG_IGN);
	alarm(lifetime);
	if (n->newsession && setsid() == -1)
		die("setsid");

	for (i = 0; i < n->nkids; i++) {
		pid_t pid = fork();

		if (pid == -1)
			die("fork");
		if (pid == 0) {
			run_node(n->kids[i], ready, lifetime);
			_exit(98);
		}
	}

	len = snprintf(buf, sizeof(buf), "%d %ld\n", idx, (long)getpid());
	fd = open(ready, O_WRONLY | O_APPEND | O_CREAT, 0644);
	if (fd == -1)
		die("open ready file");
	if (write(fd, buf, (size_t)len) != len)
		die("write ready file");
	close(fd);

	if (n->stopped)
		raise(SIGSTOP);

	if (n->timed >= 0) {
		ts.tv_sec = n->timed / 1000;
		ts.tv_nsec = (n->timed % 1000) * 1000000L;
		while (nanosleep(&ts, &ts) == -1 && errno == EINTR)
			continue;
		if (exitfd != -1 && write(exitfd, exitline, exitlen) == -1)
			_exit(97);
		_exit(n->code);
	}
	for (;;)
		pause();
}

int
main(int argc, char *argv[])
{
	unsigned int lifetime = 60;

	if (argc < 3)
		die("usage: proctree description readyfile [lifetime]");
	if (argc > 3)
		lifetime = (unsigned int)atoi(argv[3]);
	input = argv[1];
	parse_node();
	if (*input != '\0')
		die("trailing garbage");
	run_node(0, argv[2], lifetime);
	return 0;
}
