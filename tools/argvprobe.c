/*
 * argvprobe - the command the C06 correspondence harness has robsd-exec and
 * robsd-hook execute.
 *
 * Dumps its argument vector (argv[0] included), every argument followed by a
 * NUL byte, to the file named by $ARGVPROBE_OUT (created exclusively, so a
 * second execution is noticed), then, as instructed by the environment:
 *
 *   ARGVPROBE_SLEEP=<seconds>   sleep (used to outlive regress-timeout)
 *   ARGVPROBE_SIGNAL=<n>        give signal n its default disposition, unblock
 *                               it and send it to itself (no core file)
 *   ARGVPROBE_EXIT=<code>       exit with that code (default 0)
 *   ARGVPROBE_ENVOUT=<file>     dump the environment as well, every string
 *                               followed by a NUL byte
 *   ARGVPROBE_CLOSEFDS=1        close stdin, stdout and stderr before leaving
 *   ARGVPROBE_CORE=1            with ARGVPROBE_SIGNAL: leave the core file size
 *                               limit at its hard maximum, so that a signal whose
 *                               default action dumps core sets the core flag of
 *                               the wait status (the file lands in the cwd)
 *
 * It is installed under several names (argvprobe, sh) so that the script
 * template "sh -eu ..." of the script modes reaches it through PATH.
 */
#include <sys/resource.h>

#include <fcntl.h>
#include <signal.h>
#include <stdlib.h>
#include <string.h>
#include <unistd.h>

extern char **environ;

static void
dump(int fd, const char *s)
{
	size_t len = strlen(s) + 1;
	size_t off = 0;

	while (off < len) {
		ssize_t n = write(fd, s + off, len - off);

		if (n <= 0)
			_exit(99);
		off += (size_t)n;
	}
}

int
main(int argc, char *argv[])
{
	const char *out, *v;
	int code = 0;
	int fd, i;

	out = getenv("ARGVPROBE_OUT");
	if (out == NULL)
		_exit(97);
	fd = open(out, O_WRONLY | O_CREAT | O_EXCL, 0644);
	if (fd == -1)
		_exit(98);
	for (i = 0; i < argc; i++)
		dump(fd, argv[i]);
	if (close(fd) == -1)
		_exit(99);

	v = getenv("ARGVPROBE_ENVOUT");
	if (v != NULL) {
		char **e;

		fd = open(v, O_WRONLY | O_CREAT | O_EXCL, 0644);
		if (fd == -1)
			_exit(98);
		for (e = environ; *e != NULL; e++)
			dump(fd, *e);
		if (close(fd) == -1)
			_exit(99);
	}

	v = getenv("ARGVPROBE_SLEEP");
	if (v != NULL && atoi(v) > 0) {
		unsigned int left = (unsigned int)atoi(v);

		while (left > 0)
			left = sleep(left);
	}

	v = getenv("ARGVPROBE_CLOSEFDS");
	if (v != NULL && atoi(v) > 0) {
		close(0);
		close(1);
		close(2);
	}

	v = getenv("ARGVPROBE_SIGNAL");
	if (v != NULL && atoi(v) > 0) {
		struct rlimit rl = { 0, 0 };
		sigset_t set;
		int signo = atoi(v);
		const char *core = getenv("ARGVPROBE_CORE");

		if (core != NULL && atoi(core) > 0 &&
		    getrlimit(RLIMIT_CORE, &rl) == 0)
			rl.rlim_cur = rl.rlim_max;
		setrlimit(RLIMIT_CORE, &rl);
		signal(signo, SIG_DFL);
		sigemptyset(&set);
		sigaddset(&set, signo);
		sigprocmask(SIG_UNBLOCK, &set, NULL);
		kill(getpid(), signo);
		/* ignored or stopping signals fall through */
	}

	v = getenv("ARGVPROBE_EXIT");
	if (v != NULL)
		code = atoi(v);
	_exit(code);
}
