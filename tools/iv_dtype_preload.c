/*
 * LD_PRELOAD stand-in used by the C15 correspondence harness: makes readdir(3)
 * answer d_type = DT_UNKNOWN for the names listed (one per line) in the file
 * named by IV_DTYPE_UNKNOWN_FILE, as a file system without d_type support
 * would.  Everything else is passed through.  Trusted stand-in, listed in the
 * evidence when used.
 */
#define _GNU_SOURCE
#include <dirent.h>
#include <dlfcn.h>
#include <stdio.h>
#include <stdlib.h>
#include <string.h>

static char *names;
static size_t nameslen;
static int loaded;

static void
load(void)
{
	const char *path;
	FILE *fh;
	long n;

	loaded = 1;
	path = getenv("IV_DTYPE_UNKNOWN_FILE");
	if (path == NULL)
		return;
	fh = fopen(path, "rb");
	if (fh == NULL)
		return;
	fseek(fh, 0, SEEK_END);
	n = ftell(fh);
	fseek(fh, 0, SEEK_SET);
	if (n > 0) {
		names = malloc((size_t)n + 1);
		if (names != NULL) {
			nameslen = fread(names, 1, (size_t)n, fh);
			names[nameslen] = '\0';
		}
	}
	fclose(fh);
}

static int
listed(const char *name)
{
	size_t len = strlen(name);
	size_t i = 0;

	if (!loaded)
		load();
	if (names == NULL)
		return 0;
	while (i < nameslen) {
		const char *nl = memchr(names + i, '\n', nameslen - i);
		size_t l = nl ? (size_t)(nl - (names + i)) : nameslen - i;

		if (l == len && memcmp(names + i, name, len) == 0)
			return 1;
		i += l + 1;
	}
	return 0;
}

struct dirent *
readdir(DIR *d)
{
	static struct dirent *(*real)(DIR *);
	struct dirent *de;

	if (real == NULL)
		real = (struct dirent *(*)(DIR *))dlsym(RTLD_NEXT, "readdir");
	de = real(d);
	if (de != NULL && listed(de->d_name))
		de->d_type = DT_UNKNOWN;
	return de;
}

struct dirent64 *
readdir64(DIR *d)
{
	static struct dirent64 *(*real)(DIR *);
	struct dirent64 *de;

	if (real == NULL)
		real = (struct dirent64 *(*)(DIR *))dlsym(RTLD_NEXT, "readdir64");
	de = real(d);
	if (de != NULL && listed(de->d_name))
		de->d_type = DT_UNKNOWN;
	return de;
}
