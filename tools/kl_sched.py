#!/usr/bin/env python3
"""kl_sched - sync scheduler for C07 (one case per process).

Reads one JSON case on stdin, runs the real robsd-exec (built with
-DROBSD_VERIF) on a step whose command is the process-tree probe, drives it
through the sync points of step-exec.c as the case's script says, and prints
one JSON observation on stdout.

case: {"impl": dir with robsd-exec, "probe": path of proctree, "work": scratch dir,
       "mode": "canvas" | "regress", "timeout": seconds (regress only, 0 = none),
       "tree": description, "nodes": number of nodes,
       "hold": path of kl_hold.so (always preloaded: logs kill(2); holds the child when the script starts with H),
       "script": [[op, arg], ...]}
script ops (the same language the Coq model interprets):
  ["R", point]  continue the runner until it stops at sync point <point>
  ["B", ""]     continue the runner until it is blocked in waitpid (or has exited)
  ["S", "TERM" | "ALRM" | "ALRMREAL" | "PIPE"]
                deliver the signal to the runner; ALRMREAL waits for the runner's own alarm(2); PIPE is the
                signal the runner ignores (siginstall(SIGPIPE, SIG_IGN)): the harness expects no effect
  ["X", index]  node <index> exits on its own (SIGUSR1 to an 'e' node), wait until it is dead
  ["H", ""]     first op only: the forked child of robsd-exec is held (stopped) before setsid(2) by the
                LD_PRELOAD shim tools/kl_hold.c - the step's process group does not come up
  ["U", ""]     release the held child and wait until the step's processes exist
  ["E", ""]     let the configured regress-timeout pass (the runner's own alarm(2) fires if it is armed)
  ["D", millis] undriven: sleep that long (race runs)
  ["F", ""]     continue the runner until it exits (or is found blocked for good: "hang")

This process makes itself a child subreaper so that orphans of the step are
reparented to it, can be observed as zombies and are always cleaned up: in the
finally block every descendant is killed with SIGKILL and reaped.
"""
import ctypes, json, os, select, signal, subprocess, sys, time

T_POINT = 10.0     # seconds to wait for a sync point / readiness
T_EXIT = 16.0      # seconds to wait for the runner to exit (2 x 5 s kill timeouts + margin)
T_STUCK = 0.35     # runner blocked in waitpid with nothing pending for this long: hang


def stat_of(pid):
    """(state, ppid, pgrp) or None"""
    try:
        s = open('/proc/%d/stat' % pid).read()
    except OSError:
        return None
    r = s.rfind(')')
    f = s[r + 2:].split()
    return f[0], int(f[1]), int(f[2])


def wchan(pid):
    try:
        return open('/proc/%d/wchan' % pid).read().strip()
    except OSError:
        return ''


def in_wait(pid):
    st = stat_of(pid)
    if st is None or st[0] != 'S':
        return False
    w = wchan(pid)
    if w and w != '0':
        # blocked in waitpid; sigsuspend is accepted too so that a repaired runner that waits
        # with sigsuspend() + waitpid(WNOHANG) can still be driven
        return w == 'do_wait' or 'sigsuspend' in w
    try:
        return open('/proc/%d/syscall' % pid).read().split()[0] in ('61', '260', '247', '130', '133')
    except (OSError, IndexError):
        return False


def wait_arg(pid):
    """first argument (as a signed int) of the wait4(2) the process is blocked in; None when it is not in wait4.
    step_exec waits with waitpid(-pid, ...), the "process group failure" path of step_fork with waitpid(pid, ...)."""
    try:
        f = open('/proc/%d/syscall' % pid).read().split()
    except OSError:
        return None
    if len(f) < 2 or f[0] != '61':
        return None
    try:
        v = int(f[1], 16) & 0xffffffff
    except ValueError:
        return None
    return v - (1 << 32) if v & 0x80000000 else v


def sigpending(pid, signo):
    try:
        for line in open('/proc/%d/status' % pid):
            if line.startswith('SigPnd:') or line.startswith('ShdPnd:'):
                if int(line.split()[1], 16) & (1 << (signo - 1)):
                    return True
    except OSError:
        pass
    return False


def any_pending(pid):
    return sigpending(pid, signal.SIGTERM) or sigpending(pid, signal.SIGALRM)


def descendants(root):
    kids = {}
    for e in os.listdir('/proc'):
        if e.isdigit():
            st = stat_of(int(e))
            if st:
                kids.setdefault(st[1], []).append(int(e))
    out, todo = [], [root]
    while todo:
        p = todo.pop()
        for k in kids.get(p, []):
            out.append(k)
            todo.append(k)
    return out


class Sched:
    def __init__(self, case):
        self.c = case
        self.work = case['work']
        self.fifo = os.path.join(self.work, 'fifo')
        self.ready = os.path.join(self.work, 'ready')
        self.stderr_path = os.path.join(self.work, 'stderr')
        self.proc = None
        self.at = 'running'          # sync point the runner is stopped at, or 'running'
        self.deliveries = []         # [signal, where]
        self.selfexit = []           # node indices made to exit
        self.reached = []            # outcome of every R/B
        self.rc = None
        self.buf = b''
        self.child = None            # pid of the held child (H)
        self.held = False
        self.released = False
        self.saw_groupfail = False   # the runner was seen blocked in waitpid(pid > 0): the failure path of step_fork

    # -- set up ----------------------------------------------------------
    def start(self):
        c = self.c
        os.mkfifo(self.fifo)
        self.rfd = os.open(self.fifo, os.O_RDONLY | os.O_NONBLOCK)
        self.wfd = os.open(self.fifo, os.O_WRONLY)     # keeps the FIFO from reporting EOF
        conf = os.path.join(self.work, 'conf')
        env = dict(os.environ)
        if c['mode'] == 'canvas':
            open(conf, 'w').write('canvas-name "c07"\ncanvas-dir "%s"\nstep "x" command { "%s" "%s" "%s" }\n'
                                  % (self.work, c['probe'], c['tree'], self.ready))
            argv = [os.path.join(c['impl'], 'robsd-exec'), '-m', 'canvas', '-C', conf, 'x']
        else:
            execdir = os.path.join(self.work, 'exec')
            os.mkdir(execdir)
            open(os.path.join(execdir, 'robsd-regress-exec.sh'), 'w').write(
                'exec "%s" "%s" "%s"\n' % (c['probe'], c['tree'], self.ready))
            body = 'robsddir "%s"\nbsd-srcdir "%s"\ncvs-user "nobody"\nregress "test/one"\n' % (self.work, self.work)
            if c.get('timeout', 0) > 0:
                body += 'regress-timeout %ds\n' % c['timeout']
            open(conf, 'w').write(body)
            env['EXECDIR'] = execdir
            argv = [os.path.join(c['impl'], 'robsd-exec'), '-m', 'robsd-regress', '-C', conf, 'test/one']
        points = sorted({a for op, a in c['script'] if op == 'R'})
        env['ROBSD_VERIF_SYNC'] = ','.join(points)
        env['ROBSD_VERIF_FIFO'] = self.fifo
        # the shim is always loaded: it logs the kill(2) calls; it holds the child only when the script starts with H
        env['LD_PRELOAD'] = c['hold']
        self.killlog = os.path.join(self.work, 'killlog')
        env['ROBSD_VERIF_KILLLOG'] = self.killlog
        if c['script'] and c['script'][0][0] == 'H':
            env['ROBSD_VERIF_HOLD'] = 'child.before_setsid'
        self.errf = open(self.stderr_path, 'wb')
        self.proc = subprocess.Popen(argv, env=env, stdin=subprocess.DEVNULL, stdout=subprocess.DEVNULL,
                                     stderr=self.errf, cwd=self.work)
        self.pid = self.proc.pid

    # -- helpers ---------------------------------------------------------------
    def exited(self):
        if self.rc is None:
            r = self.proc.poll()
            if r is not None:
                self.rc = r
                self.at = 'exited'
        return self.rc is not None

    def cont(self):
        if self.at not in ('running', 'exited'):
            self.at = 'running'
            try:
                os.kill(self.pid, signal.SIGCONT)
            except OSError:
                pass

    def advance(self, target):
        """continue the runner until it stops at sync point <target> ('reached'), blocks in
        waitpid ('blocked'), or exits ('exited'); target 'blocked' / 'exit' name no point.
        Other listed points reached on the way are passed through."""
        self.cont()
        end = time.time() + (T_EXIT if target == 'exit' else T_POINT)
        blocked_since = None
        while True:
            if b'\n' in self.buf:
                line, self.buf = self.buf.split(b'\n', 1)
                name, pid = line.decode().split()
                pid = int(pid)
                t1 = time.time() + 5
                while time.time() < t1:
                    st = stat_of(pid)
                    if st is None or st[0] in 'Tt':
                        break
                    time.sleep(0.0003)
                if name == 'child.before_setsid':
                    self.child, self.held = pid, True      # stays stopped until U
                    continue
                if pid == self.pid and name == target:
                    self.at = name
                    return 'reached'
                try:
                    os.kill(pid, signal.SIGCONT)
                except OSError:
                    pass
                continue
            r, _, _ = select.select([self.rfd], [], [], 0.002)
            if r:
                try:
                    d = os.read(self.rfd, 4096)
                except BlockingIOError:
                    d = b''
                self.buf += d
                if d:
                    continue
            if self.exited():
                return 'exited'
            if in_wait(self.pid) and not any_pending(self.pid):
                a = wait_arg(self.pid)
                if a is not None and a > 0:
                    self.saw_groupfail = True
                if target == 'blocked':
                    return 'blocked'
                if blocked_since is None:
                    blocked_since = time.time()
                elif time.time() - blocked_since > T_STUCK:
                    return 'blocked'
            else:
                blocked_since = None
            if time.time() > end:
                return 'timeout'

    def members(self):
        """index -> pid from the ready file"""
        m = {}
        try:
            for line in open(self.ready):
                p = line.split()
                if len(p) == 2 and p[0] != 'x':
                    m[int(p[0])] = int(p[1])
        except OSError:
            pass
        return m

    def selfexits(self):
        """nodes that said they exit on their own (written by the probe's SIGUSR1 handler)"""
        out = []
        try:
            for line in open(self.ready):
                p = line.split()
                if len(p) == 2 and p[0] == 'x':
                    out.append(int(p[1]))
        except OSError:
            pass
        return out

    def wait_ready(self):
        end = time.time() + T_POINT
        while time.time() < end:
            if len(self.members()) >= self.c['nodes']:
                return True
            if self.exited() and not self.members() and not descendants(os.getpid()):
                return False      # the runner is gone and left no child: the step never existed
            time.sleep(0.001)
        return False

    def group_failed(self):
        try:
            self.errf.flush()
            return b'process group failure' in open(self.stderr_path, 'rb').read()
        except OSError:
            return False

    def where(self):
        if self.exited():
            return 'exited'
        if self.at != 'running':
            return self.at
        if in_wait(self.pid):
            a = wait_arg(self.pid)
            if a is not None and a > 0:
                self.saw_groupfail = True
            # which waitpid it is blocked in is read from the system call's argument; the runner's own words
            # ("process group failure") only count when /proc does not tell
            return 'blocked.groupfail' if (a is not None and a > 0) or (a is None and self.group_failed()) else 'blocked'
        return 'running'

    def wait_held(self):
        """H: wait until the forked child has announced itself and is stopped before setsid"""
        end = time.time() + T_POINT
        while time.time() < end and not self.held:
            lines = self.buf.split(b'\n')
            for i, line in enumerate(lines[:-1]):
                if line.startswith(b'child.before_setsid '):
                    self.child, self.held = int(line.split()[1]), True
                    del lines[i]
                    self.buf = b'\n'.join(lines)
                    break
            if self.held:
                break
            r, _, _ = select.select([self.rfd], [], [], 0.002)
            if r:
                try:
                    self.buf += os.read(self.rfd, 4096)
                except BlockingIOError:
                    pass
        t1 = time.time() + 5
        while self.held and time.time() < t1:
            st = stat_of(self.child)
            if st is None or st[0] in 'Tt':
                break
            time.sleep(0.0003)
        return self.held

    def expire(self, w):
        """E / ALRMREAL: let the configured timeout pass; True if the runner's alarm fired"""
        end = time.time() + self.c.get('timeout', 1) + 1.5
        if w not in ('running', 'blocked', 'blocked.groupfail', 'exited'):
            while time.time() < end and not sigpending(self.pid, signal.SIGALRM):
                time.sleep(0.005)
            return sigpending(self.pid, signal.SIGALRM)
        if w in ('blocked', 'blocked.groupfail'):
            while time.time() < end and in_wait(self.pid) and not self.exited():
                time.sleep(0.002)
            return self.exited() or not in_wait(self.pid)
        return False

    # -- script -----------------------------------------------------------------
    def run_script(self):
        for op, arg in self.c['script']:
            if op == 'R':
                self.reached.append(self.advance(arg))
            elif op == 'B':
                self.reached.append(self.advance('blocked'))
            elif op == 'H':
                if not self.wait_held():
                    raise RuntimeError('the child was not held before setsid')
            elif op == 'U':
                if self.held and not self.released:
                    self.released = True
                    try:
                        os.kill(self.child, signal.SIGCONT)
                    except OSError:
                        pass
                    self.wait_ready()
            elif op == 'E' or (op == 'S' and arg == 'ALRMREAL'):
                if not self.held or self.released:
                    self.wait_ready()
                w = self.where()
                self.expire(w)
                # the configured timeout has passed while the step was running: an event, whether or
                # not the runner noticed
                if w not in ('running', 'exited') and self.c.get('timeout', 0) > 0 and self.c.get('mode') == 'regress':
                    self.deliveries.append(['ALRM', w])
            elif op == 'S':
                if not self.c.get('race') and (not self.held or self.released):
                    self.wait_ready()
                w = self.where()
                if w == 'running' and not self.c.get('race'):
                    # a driven script signals a runner that is stopped at a sync point or blocked; 'running' is a
                    # transient reading of /proc on a loaded machine: look again for a moment
                    end = time.time() + 0.5
                    while w == 'running' and time.time() < end:
                        time.sleep(0.005)
                        w = self.where()
                signo = {'TERM': signal.SIGTERM, 'PIPE': signal.SIGPIPE}.get(arg, signal.SIGALRM)
                if w != 'exited':
                    try:
                        os.kill(self.pid, signo)
                    except OSError:
                        w = 'exited'
                self.deliveries.append([arg, w])
            elif op == 'X':
                self.wait_ready()
                pid = self.members().get(int(arg))
                if pid is not None:
                    # let a group signal that is already on its way to this member take effect first
                    end = time.time() + 1.0
                    while time.time() < end:
                        st = stat_of(pid)
                        if st is None or st[0] in 'ZX':
                            break
                        if not sigpending(pid, signal.SIGTERM) and not sigpending(pid, signal.SIGKILL):
                            break
                        time.sleep(0.0003)
                    st = stat_of(pid)
                    if st is not None and st[0] not in 'ZX':
                        try:
                            os.kill(pid, signal.SIGUSR1)
                        except OSError:
                            pass
                        end = time.time() + 1.0
                        while time.time() < end and int(arg) not in self.selfexits():
                            st = stat_of(pid)
                            if st is None or st[0] in 'ZX':
                                break
                            time.sleep(0.0003)
                        end = time.time() + 1.0
                        while time.time() < end and int(arg) in self.selfexits():
                            st = stat_of(pid)
                            if st is None or st[0] in 'ZX':
                                break
                            time.sleep(0.0003)
            elif op == 'D':
                time.sleep(float(arg) / 1000.0)
            elif op == 'F':
                if not self.held or self.released:
                    self.wait_ready()
                self.reached.append(self.advance('exit'))

    # -- observation -------------------------------------------------------------
    def scan(self, members, pgid):
        """index -> 'alive' | 'zombie' | 'gone'; plus strangers in the group.
        PID REUSE: on a loaded machine the pid space (32768) wraps within seconds, and runs with a TERM-ignoring main
        process last longer than that.  A pid only counts as a process of this step while it DESCENDS from this scheduler
        (a child subreaper: every process of the step, orphaned or not, stays below it); a recycled pid does not."""
        res = {}
        mine = set(descendants(os.getpid()))
        for idx, pid in members.items():
            st = stat_of(pid)
            if st is None or pid not in mine:
                res[idx] = 'gone'
            elif st[0] in 'ZX':
                res[idx] = 'zombie'
            else:
                res[idx] = 'alive'
        strangers = 0
        known = set(members.values())
        if pgid:
            for e in os.listdir('/proc'):
                if e.isdigit() and int(e) not in known and int(e) in mine:
                    st = stat_of(int(e))
                    if st and st[2] == pgid and st[0] not in 'ZX':
                        strangers += 1
        return res, strangers

    def observe(self):
        members = self.members()
        pgid = members.get(0, 0)
        never_up = self.held and not members
        if never_up:
            members = {0: self.child}       # the step exists only as the held child
        elif not pgid:
            # the main process never reported (race runs): it is the group leader among the
            # processes that descend from this scheduler, if it still exists in any form
            for p in descendants(os.getpid()):
                st = stat_of(p)
                if st and st[2] == p and p != self.pid:
                    pgid = p
            if pgid:
                members[0] = pgid
        first, strangers = self.scan(members, pgid)
        if 0 not in members:
            first[0] = 'gone'      # no trace of a main process: reaped (or the step never existed)
        later = first
        t0 = time.time()
        prev = first
        for delay in (0.02, 0.08, 0.3, 0.6, 1.0, 1.5):
            dt = t0 + delay - time.time()
            if dt > 0:
                time.sleep(dt)
            later, strangers = self.scan(members, pgid)
            if delay >= 0.3 and later == prev:
                break          # nothing changed any more: members hit by a signal have died
            prev = later
        n = self.c['nodes']
        if self.rc is None:
            result = ['hang', 0]
        elif self.rc < 0:
            result = ['killed', -self.rc]
        else:
            result = ['exit', self.rc]
        self.errf.flush()
        err = open(self.stderr_path, 'rb').read().decode('latin1')
        # what the runner says it sent (free text, NOT used for the verdict) ...
        kills_text = []
        for line in err.splitlines():
            if 'sending term signal' in line:
                kills_text.append(15)
            elif 'sending kill signal' in line:
                kills_text.append(9)
        # ... and the kill(2) calls it made (tools/kl_hold.c): to the step's process group / to anything else
        kills, kills_other = [], []
        group = -(pgid or (self.child if never_up else 0) or 0)
        try:
            for line in open(self.killlog):
                f = line.split()
                if len(f) == 4 and int(f[0]) == self.pid:
                    if (group and int(f[1]) == group) or (not group and int(f[1]) < -1):
                        # (no trace of the step's main process is left - race runs: a negative target is taken as its group)
                        kills.append(int(f[2]))
                    else:
                        kills_other.append([int(f[1]), int(f[2])])
        except OSError:
            pass
        main0 = first.get(0, 'unknown')
        return {
            'result': result,
            'main': {'gone': 'reaped', 'zombie': 'zombie', 'alive': 'alive'}.get(main0, main0),
            'alive': [1 if later.get(i, 'alive' if never_up else None) == 'alive' else 0 for i in range(n)],
            'alive_at_exit': [1 if first.get(i, 'alive' if never_up else None) == 'alive' else 0 for i in range(n)],
            'ready': len(members) >= n,
            'slow': self.saw_groupfail or self.group_failed(),
            'slow_seen': self.saw_groupfail,
            'slow_said': self.group_failed(),
            'held': self.held,
            'strangers': strangers,
            'kills': kills,
            'kills_other': kills_other,
            'kills_text': kills_text,
            'deliveries': self.deliveries,
            'selfexit': sorted(set(self.selfexits())),
            'reached': self.reached,
            'stderr': err[-600:],
        }

    # -- clean up -----------------------------------------------------------------
    def cleanup(self):
        me = os.getpid()
        for _ in range(50):
            ds = descendants(me)
            live = [p for p in ds if (stat_of(p) or ('Z',))[0] not in 'ZX']
            for p in live:
                try:
                    os.kill(p, signal.SIGKILL)
                except OSError:
                    pass
            try:
                while True:
                    pid, _ = os.waitpid(-1, os.WNOHANG)
                    if pid == 0:
                        break
            except ChildProcessError:
                if not live:
                    break
            if not ds:
                break
            time.sleep(0.01)
        for fd in (getattr(self, 'rfd', None), getattr(self, 'wfd', None)):
            if fd is not None:
                try:
                    os.close(fd)
                except OSError:
                    pass


def main():
    case = json.load(sys.stdin)
    ctypes.CDLL(None, use_errno=True).prctl(36, 1, 0, 0, 0)   # PR_SET_CHILD_SUBREAPER
    s = Sched(case)
    out = {'error': 'scheduler failure'}
    try:
        s.start()
        s.run_script()
        out = s.observe()
    except Exception as e:           # reported, never hidden
        import traceback
        out = {'error': traceback.format_exc()[-800:]}
    finally:
        s.cleanup()
    json.dump(out, sys.stdout)
    sys.stdout.write('\n')


if __name__ == '__main__':
    main()
