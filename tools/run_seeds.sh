#!/bin/bash
# Re-run every stored seeded change against the current checks, each on a scratch copy of /repo.
# usage: tools/run_seeds.sh [dir ...]   (default: all of seeded/*/)
cd /verif
dirs=("$@"); [ ${#dirs[@]} -eq 0 ] && dirs=(seeded/*/)
for d in "${dirs[@]}"; do
  d=${d%/}; [ -f "$d/patch.diff" ] || continue
  id=$(python3 -c "import json;print(json.load(open('$d/meta.json'))['property'])")
  c=$(mktemp -d /tmp/seedrun.XXXX); rsync -a --exclude=.git --exclude='*.o' --exclude='*.d' /repo/ $c/
  if ! (cd $c && patch -p1 -s --no-backup-if-mismatch < $( [ -f /verif/$d/patch.rebased.diff ] && echo /verif/$d/patch.rebased.diff || echo /verif/$d/patch.diff ) >/dev/null 2>&1); then
    echo "$d ($id): PATCH-DOES-NOT-APPLY"; rm -rf $c; continue
  fi
  out=$(VERIF_REPO=$c timeout 1500 bin/check $id 2>&1 | grep -E "^VIOLATION|quick:" | cut -c1-150 | tr '\n' '|')
  echo "$d ($id): $out"
  rm -rf $c
done
