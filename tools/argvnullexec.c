/*
 * argvnullexec - what does THIS platform do with execvp(NULL, {NULL})?
 *
 * A step command of which nothing is left after interpolation makes the forked
 * child of robsd-exec call execvp(command[0], command) with command[0] == NULL
 * (step-exec.c step_fork).  POSIX leaves that undefined.  glibc dereferences the
 * name: the child dies from SIGSEGV.  Other C libraries return -1 (EFAULT or
 * ENOENT) and the child leaves through err(1, ...).  The C06 harness runs this
 * probe once per check and hands the answer to the model as the kernel's answer
 * for the empty vector, so that model and implementation are compared exactly
 * (no normalisation of the status).
 *
 * prints "w<wait status>" when the child died from a signal, "x" when execvp
 * returned.
 */
#include <sys/resource.h>
#include <sys/wait.h>

#include <stdio.h>
#include <unistd.h>

int
main(void)
{
	char *volatile none = NULL;
	char *argv[1] = { NULL };
	struct rlimit rl = { 0, 0 };
	int status;
	pid_t pid;

	pid = fork();
	if (pid == -1)
		return 2;
	if (pid == 0) {
		setrlimit(RLIMIT_CORE, &rl);
		execvp(none, argv);
		_exit(1);
	}
	if (waitpid(pid, &status, 0) == -1)
		return 2;
	if (WIFSIGNALED(status))
		printf("w%d\n", WTERMSIG(status));
	else
		printf("x\n");
	return 0;
}
